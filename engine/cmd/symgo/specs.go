package main

import "fmt"

var specs = map[string]*spec{}

func register(s *spec) { specs[s.ID] = s }

func init() {
	register(&spec{
		ID:    "C01",
		Title: "Desired ordinals = first r non-negative integers not in delete-slots",
		Runs: []runSpec{
			{
				Name: "helper-kernel", Pkg: pkgHelper, Func: "VH_C01Kernel",
				Quick: []int{3, 2}, Thorough: []int{4, 3},
				Bounds: func(a []int) string {
					return fmt.Sprintf("replicas r in [0,%d] (symbolic), up to %d delete slots each an arbitrary int32 (duplicates, negatives, extremes), plus nil/absent/10 malformed annotation values", a[0], a[1])
				},
				Asserts: []string{"pod ordinals equal the desired set", "exactly r ordinals", "max ordinal agrees", "min ordinal agrees",
					"effective slots are the slots inside the range", "desired set is the range minus the effective slots", "input slot set not mutated"},
			},
		},
		Assumptions: []string{
			"encoding/json round trip of []int32 is lossless (std library contract); malformed and literal annotation values are decoded by the real encoding/json",
		},
		OutsideClaim: []string{"replica counts above the bound", "more delete slots than the bound", "map iteration orders other than insertion order"},
	})
}
