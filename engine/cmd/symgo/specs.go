package main

import (
	"fmt"
	"strings"
)

var specs = map[string]*spec{}

func register(s *spec) { specs[s.ID] = s }

func init() {
	register(&spec{
		ID:    "C01",
		Title: "Desired ordinals = first r non-negative integers not in delete-slots",
		Runs: []runSpec{
			{
				Name: "helper-kernel", Pkg: pkgHelper, Func: "VH_C01Kernel",
				Quick: []int{3, 2}, Thorough: []int{4, 2},
				Bounds: func(a []int) string {
					return fmt.Sprintf("replicas r in [0,%d] (symbolic), up to %d delete slots each an arbitrary int32 (duplicates, negatives, extremes), plus nil/absent/12 malformed annotation values (syntax errors and well-formed lists with an element that is not an int32); every iteration order of the slot set (maps of 2..3 entries) inside GetDeleteSlots, GetMaxReplicaCountAndDeleteSlots and sets.UnsortedList; after all helpers ran once, the same annotation text on a second object is decoded again and its ordinals computed at replicas %d (results must not depend on the earlier calls)", a[0], a[1], a[0])
				},
				Asserts: []string{"pod ordinals equal the desired set", "exactly r ordinals", "max ordinal agrees", "min ordinal agrees",
					"effective slots are the slots inside the range", "desired set is the range minus the effective slots", "input slot set not mutated",
					"decoding does not depend on earlier calls", "pod ordinals at a larger replica count do not depend on earlier calls"},
			},
			{
				Name: "helper-kernel-three-slots", Pkg: pkgHelper, Func: "VH_C01Kernel", NoMapOrder: true,
				Quick: []int{3, 3}, Thorough: []int{4, 3},
				Bounds: func(a []int) string {
					return fmt.Sprintf("replicas r in [0,%d] (symbolic), up to %d delete slots each an arbitrary int32, plus nil/absent/malformed values; maps visited in insertion order", a[0], a[1])
				},
				Asserts: []string{"pod ordinals equal the desired set", "exactly r ordinals", "max ordinal agrees", "min ordinal agrees",
					"decoding does not depend on earlier calls", "pod ordinals at a larger replica count do not depend on earlier calls"},
			},
		},
		Assumptions: []string{
			"map iteration orders are explored in the 'helper-kernel' run only (two slots); the three-slot run visits maps in insertion order",
			"encoding/json round trip of []int32 is lossless (std library contract); malformed and literal annotation values are decoded by the real encoding/json",
		},
		MapOrder:     []string{"~UnsortedList", pkgHelper + ".GetMaxReplicaCountAndDeleteSlots", pkgHelper + ".GetDeleteSlots"},
		OutsideClaim: []string{"replica counts above the bound", "more delete slots than the bound", "iteration orders of maps with more than 3 entries"},
	})

	ctlStubs := map[string]string{
		pkgCtl + ".getPatch":      "vGetPatchModel",
		pkgCtl + ".ApplyRevision": "vApplyRevisionModel",
	}
	wiringStubs := map[string]string{
		pkgCtl + ".getPatch":                                           "vGetPatchModel",
		pkgCtl + ".ApplyRevision":                                      "vApplyRevisionModel",
		"k8s.io/client-go/tools/record.NewBroadcaster":                 pkgCtl + ".vNewBroadcasterModel",
		"k8s.io/client-go/util/workqueue.NewNamedRateLimitingQueue":    pkgCtl + ".vNewQueueModel",
		"k8s.io/client-go/util/workqueue.DefaultControllerRateLimiter": pkgCtl + ".vDefaultRateLimiterModel",
	}
	bitWords := func(v int, words []string) string {
		var out []string
		for k, w := range words {
			if v&(1<<k) != 0 {
				out = append(out, w)
			}
		}
		if len(out) == 0 {
			return "none"
		}
		return strings.Join(out, "; ")
	}
	stepWords := []string{"policy OrderedReady", "policy Parallel", "no rollout in progress", "set may be deleting", "pods healthy (only ordinal, revision, terminating vary)",
		"strategy RollingUpdate with a partition", "one server error", "pods may carry a third revision", "arbitrary stored status and generation", "conflict on the status write",
		"ordinals offset by 8", "slot values arbitrary int32", "pods may be on the server but not in the cache", "a delete may find the pod gone", "revisionHistoryLimit 0", "through the per-key sync (real listing and claiming)", "a pod may be an orphan waiting for adoption"}
	stepBounds := func(a []int) string {
		return fmt.Sprintf("one reconcile from a snapshot with <=%d pods at distinct ordinals of [0,%d] (each with symbolic phase in {Pending, Running, Succeeded, Failed, Unknown}, readiness, terminating flag and revision unless stated), replicas in [0,%d], <=%d delete slots with values in [0,%d], policy / strategy / rollingUpdate block / arbitrary non-negative int32 partition symbolic unless fixed; options: %s", a[0], a[1]+a[2], a[1], a[2], a[1]+a[2], bitWords(a[3], stepWords))
	}
	const (
		oPolicyOrdered = 1 << iota
		oPolicyParallel
		oNoRollout
		oDeleting
		oLeanPods
		oRollingOnly
		oFaults
		oThreeRevs
		oStatusSym
		oStatusConflict
		oBase8
		oWildSlots
		oStalePods
		oDeleteGone
		oNoHistory
		oViaSync
		oOrphanPods
	)
	const (
		mC03 = 1 << iota
		mC04
		mC05
		mC07
		mC12
		mC14
	)
	step := func(name string, q, t []int, asserts, covers []string) runSpec {
		return runSpec{Name: name, Pkg: pkgCtl, Func: "VH_Step", Quick: q, Thorough: t, Bounds: stepBounds, Asserts: asserts, Covers: covers}
	}
	stepAssume := []string{
		"pods of the snapshot carry canonical names, matching labels and this set as controller (ownership is C10)",
		"pod phase is one of Pending/Running/Succeeded/Failed (the API server never stores an empty phase)",
		"getPatch/ApplyRevision are replaced by models during symbolic execution (the real codecs run in the native replay)",
		"delete-slot values lie in [0,R+K] here; negative and extreme values are decided in C01",
	}
	stepOutside := []string{"more pods, replicas or slots than the bound", "API faults unless stated (C09)", "pods with foreign owners or odd names (C10, C15)"}
	register(&spec{
		ID: "C03", Title: "Only pods that must go are ever deleted",
		Runs: []runSpec{
			step("step", []int{2, 2, 1, oThreeRevs, mC03}, []int{2, 3, 1, oThreeRevs, mC03},
				[]string{"every delete has a reason", "live up-to-date desired pod never deleted"},
				[]string{"scale-in delete", "failed pod replaced", "update delete"}),
			step("step-wide-ordinals", []int{1, 1, 1, oBase8 | oLeanPods, mC03}, []int{2, 1, 1, oBase8 | oLeanPods | oThreeRevs, mC03},
				[]string{"every delete has a reason"}, []string{"scale-in delete"}),
			step("step-three-healthy-pods", []int{3, 1, 1, oLeanPods | oThreeRevs, mC03}, []int{3, 2, 1, oLeanPods | oThreeRevs, mC03},
				[]string{"every delete has a reason"}, []string{"scale-in delete", "update delete"}),
			step("step-arbitrary-slots", []int{1, 2, 2, oPolicyParallel | oLeanPods | oNoRollout | oWildSlots, mC03}, []int{1, 3, 2, oPolicyParallel | oLeanPods | oWildSlots, mC03},
				[]string{"every delete has a reason"}, []string{"scale-in delete", "delete-slots annotation that does not decode"}),
		},
		Stubs: ctlStubs, Assumptions: stepAssume, OutsideClaim: stepOutside,
	})
	register(&spec{
		ID: "C04", Title: "Pods are created only at vacant desired ordinals",
		Runs: []runSpec{
			step("step", []int{2, 2, 1, oThreeRevs | oDeleting, mC04}, []int{2, 3, 1, oThreeRevs | oDeleting, mC04},
				[]string{"created ordinal is desired", "created ordinal is not a delete slot", "no create for a set being deleted"},
				[]string{"vacant ordinal filled", "finished pod re-created"}),
			step("step-three-healthy-pods", []int{3, 1, 1, oLeanPods | oThreeRevs | oDeleting, mC04}, []int{3, 2, 1, oLeanPods | oThreeRevs | oDeleting, mC04},
				[]string{"created ordinal is desired"}, []string{"vacant ordinal filled"}),
			step("step-arbitrary-slots", []int{1, 2, 2, oPolicyParallel | oLeanPods | oNoRollout | oWildSlots, mC04 | mC14}, []int{1, 3, 2, oPolicyParallel | oLeanPods | oWildSlots, mC04 | mC14},
				[]string{"created ordinal is desired", "every vacant desired ordinal is created in the same reconcile"},
				[]string{"vacant ordinal filled", "delete-slots annotation that does not decode"}),
		},
		Stubs: ctlStubs, Assumptions: stepAssume, OutsideClaim: stepOutside,
	})
	register(&spec{
		ID: "C05", Title: "OrderedReady: one pod at a time, predecessors healthy, scale-in from the top",
		Runs: []runSpec{
			step("step", []int{3, 2, 1, oPolicyOrdered, mC05}, []int{4, 2, 1, oPolicyOrdered, mC05},
				[]string{"at most one ordinal is created or deleted per reconcile"},
				[]string{"ordered create", "ordered scale-in delete", "ordered update delete"}),
			step("step-through-sync", []int{2, 2, 1, oPolicyOrdered | oLeanPods | oThreeRevs | oViaSync, mC05}, []int{3, 2, 1, oPolicyOrdered | oLeanPods | oThreeRevs | oViaSync, mC05},
				[]string{"at most one ordinal is created or deleted per reconcile"},
				[]string{"ordered scale-in delete", "ordered update delete"}),
			step("step-stale-cache", []int{2, 2, 1, oPolicyOrdered | oLeanPods | oStalePods, mC05}, []int{3, 2, 1, oPolicyOrdered | oStalePods, mC05},
				[]string{"create only when every lower desired pod exists"},
				[]string{"a pod exists on the server but not in the cache"}),
			step("step-wide-ordinals", []int{2, 1, 1, oPolicyOrdered | oBase8 | oLeanPods, mC05}, []int{2, 1, 2, oPolicyOrdered | oBase8, mC05},
				[]string{"scale-in removes the highest-ordinal pod outside the desired set"},
				[]string{"ordered scale-in delete"}),
		},
		Stubs: ctlStubs, Assumptions: stepAssume, OutsideClaim: stepOutside,
	})
	register(&spec{
		ID: "C07", Title: "Rolling update honours partition, goes highest-first; OnDelete never restarts",
		Runs: []runSpec{
			step("step", []int{2, 2, 1, oThreeRevs, mC07}, []int{2, 3, 1, oThreeRevs, mC07},
				[]string{"at most one pod is deleted for update per reconcile", "no update delete below the partition"},
				[]string{"update delete seen", "create with a partition"}),
			step("step-deleted-pod-already-gone", []int{2, 2, 1, oLeanPods | oThreeRevs | oDeleteGone, mC07 | mC03}, []int{3, 2, 1, oLeanPods | oThreeRevs | oDeleteGone, mC07 | mC03},
				[]string{"at most one pod is deleted for update per reconcile"}, []string{"fault injected at pod.delete"}),
			step("step-three-healthy-pods", []int{3, 1, 1, oLeanPods | oThreeRevs, mC07}, []int{3, 2, 1, oLeanPods | oThreeRevs, mC07},
				[]string{"update delete only when every higher desired pod is updated and healthy"}, []string{"update delete seen"}),
		},
		Stubs: ctlStubs, Assumptions: stepAssume,
		OutsideClaim: append([]string{"creation revision when the rollingUpdate block is absent (legacy status.currentReplicas rule; the statement's partition is then undefined)"}, stepOutside...),
	})
	register(&spec{
		ID: "C12", Title: "Status tells the truth",
		Runs: []runSpec{
			step("step", []int{1, 2, 1, oThreeRevs | oStatusSym, mC12}, []int{2, 2, 1, oThreeRevs | oStatusSym, mC12},
				[]string{"0 <= currentReplicas <= replicas", "observedGeneration is the generation reconciled"},
				[]string{"status written", "currentRevision advanced", "quiescent reconcile with a status write", "quiescent reconcile without a status write"}),
			step("step-two-pods-ordered", []int{2, 1, 1, oPolicyOrdered | oStatusSym, mC12}, []int{2, 1, 1, oPolicyOrdered | oThreeRevs | oStatusSym, mC12},
				[]string{"0 <= currentReplicas <= replicas", "observedGeneration is the generation reconciled"},
				[]string{"status written", "quiescent reconcile with a status write", "quiescent reconcile without a status write"}),
			step("step-status-conflict", []int{1, 1, 1, oThreeRevs | oStatusSym | oStatusConflict, mC12}, []int{1, 2, 1, oThreeRevs | oStatusSym | oStatusConflict, mC12},
				[]string{"observedGeneration is the generation reconciled"},
				[]string{"fault injected at set.updateStatus"}),
		},
		Stubs: ctlStubs, Assumptions: stepAssume, OutsideClaim: stepOutside,
	})
	register(&spec{
		ID: "C14", Title: "Parallel policy never waits on other pods when scaling",
		Runs: []runSpec{
			step("step", []int{2, 2, 1, oPolicyParallel | oThreeRevs, mC14 | mC07}, []int{2, 3, 1, oPolicyParallel | oThreeRevs, mC14 | mC07},
				[]string{"every vacant desired ordinal is created in the same reconcile", "every live pod outside the desired set is deleted in the same reconcile",
					"rolling update still takes down one pod at a time", "update delete only when every higher desired pod is updated and healthy"},
				[]string{"parallel reconcile checked"}),
			step("step-three-healthy-pods", []int{3, 1, 1, oPolicyParallel | oLeanPods | oThreeRevs, mC14}, []int{3, 2, 1, oPolicyParallel | oLeanPods | oThreeRevs, mC14},
				[]string{"every live pod outside the desired set is deleted in the same reconcile"}, []string{"parallel reconcile checked"}),
		},
		Stubs: ctlStubs, Assumptions: stepAssume, OutsideClaim: stepOutside,
	})

	const (
		yOwnerDims = 1 << iota
		yPause
		yDeleting
		yStaleCache
		yRevDims
		yUndefaulted
		yHealthDims
		yOrphanRevs
		yStatusConflict
		yCacheLosesSet
		ySelectorShapes
		ySelectorExpr
	)
	const (
		nC10 = 1 << iota
		nC11
		nC15
	)
	syncWords := []string{"pod owner x labels x name shape vary", "set may be paused", "set may be deleting", "API copy of the set may differ from the cache (other UID, deleting, gone)",
		"one extra revision over owner x labels x marker, history limit 0", "spec as the CRD admits it (arbitrary strings, optional blocks absent, arbitrary int32 partition and history limit, stale status)",
		"pod phase / readiness / revision vary", "the set's own revision may be an orphan", "conflict on the status write", "the set may leave the cache mid-reconcile",
		"selector empty or DoesNotExist, revision with an all-digit hash label", "selector with matchLabels and a NotIn expression"}
	syncBounds := func(a []int) string {
		return fmt.Sprintf("one sync(key) from a world with <=%d pods at distinct ordinals of [0,%d], replicas in [0,%d], <=%d delete slots; options: %s", a[0], a[1]+a[2], a[1], a[2], bitWords(a[3], syncWords))
	}
	syncRun := func(name string, q, t []int, asserts, covers []string) runSpec {
		return runSpec{Name: name, Pkg: pkgCtl, Func: "VH_Sync", Quick: q, Thorough: t, Bounds: syncBounds, Asserts: asserts, Covers: covers}
	}
	register(&spec{
		ID: "C10", Title: "The controller touches only what it owns; adoption needs a fresh confirmation",
		Runs: []runSpec{
			syncRun("pods", []int{1, 1, 0, yOwnerDims | yStaleCache | yDeleting, nC10}, []int{2, 2, 0, yOwnerDims | yStaleCache | yDeleting, nC10},
				[]string{"only unowned pods are adopted", "adoption only after an uncached read confirmed the set", "only pods controlled by this set are released"},
				[]string{"adopt patch", "release patch", "status written after claiming"}),
			syncRun("pods-selector-with-expression", []int{1, 1, 0, yOwnerDims | ySelectorExpr, nC10}, []int{2, 1, 0, yOwnerDims | ySelectorExpr, nC10},
				[]string{"only unowned pods are adopted", "only pods controlled by this set are released", "pods that are not members are not counted"},
				[]string{"a pod satisfies matchLabels but not the expression", "release patch"}),
			syncRun("status-conflict", []int{1, 1, 0, yStatusConflict | yHealthDims, nC10}, []int{2, 2, 1, yStatusConflict | yHealthDims, nC10},
				[]string{"pods that are not members are not counted"},
				[]string{"fault injected at set.updateStatus"}),
			syncRun("revisions", []int{1, 1, 0, yRevDims | yOrphanRevs | yStaleCache, nC10}, []int{1, 1, 0, yRevDims | yOrphanRevs | yStaleCache | yDeleting, nC10},
				[]string{"revisions controlled by another owner are never written"},
				[]string{"write on a listed revision"}),
		},
		Stubs:        ctlStubs,
		Assumptions:  []string{"the fake API server applies owner-reference patches by recognising the two patch shapes the controller sends", "getPatch/ApplyRevision models as in C03"},
		OutsideClaim: []string{"more than the bounded number of pods/revisions", "arbitrary label keys and names (fixed constants / finite shapes)"},
	})
	register(&spec{
		ID: "C11", Title: "Deleted and paused sets are left alone, and a pause is lossless",
		Runs: []runSpec{
			syncRun("sync", []int{1, 2, 1, yPause | yDeleting | yOwnerDims | yOrphanRevs, nC11}, []int{1, 2, 1, yPause | yDeleting | yOwnerDims | yHealthDims | yOrphanRevs, nC11},
				[]string{"a paused set is not written at all", "no pod or claim write for a set being deleted"},
				[]string{"paused set reconciled", "deleting set reconciled"}),
			syncRun("sync-two-pods", []int{2, 2, 1, yPause | yDeleting | yHealthDims | yOrphanRevs, nC11}, []int{2, 2, 1, yPause | yDeleting | yHealthDims | yOrphanRevs, nC11},
				[]string{"a paused set is not written at all", "no pod or claim write for a set being deleted"},
				[]string{"paused set reconciled", "deleting set reconciled"}),
			syncRun("sync-stale-cache", []int{1, 1, 0, yStaleCache | yOwnerDims | yOrphanRevs, nC11}, []int{2, 1, 0, yStaleCache | yOwnerDims | yOrphanRevs, nC11},
				[]string{"nothing is adopted once the API server shows the set being deleted"},
				[]string{"set deleted on the server, cache stale"}),
		},
		Stubs:        ctlStubs,
		Assumptions:  []string{"getPatch/ApplyRevision models as in C03"},
		OutsideClaim: []string{"the resume-and-converge half of the statement reduces to C02 because a paused reconcile writes nothing and the controller keeps no state (cross-reference)"},
	})
	register(&spec{
		ID: "C15", Title: "No admitted object can crash the controller",
		Runs: []runSpec{
			syncRun("sync", []int{1, 2, 1, yUndefaulted | yHealthDims, nC15}, []int{2, 2, 1, yUndefaulted | yHealthDims, nC15},
				[]string{"reconcile never panics"}, []string{"reconcile returned"}),
			syncRun("sync-conflict-and-cache-miss", []int{1, 1, 0, yStatusConflict | yCacheLosesSet | yHealthDims, nC15}, []int{2, 2, 1, yStatusConflict | yCacheLosesSet | yHealthDims, nC15},
				[]string{"reconcile never panics"}, []string{"the set leaves the cache during the reconcile", "fault injected at set.updateStatus"}),
			syncRun("sync-selector-shapes", []int{1, 1, 0, yUndefaulted | ySelectorShapes, nC15}, []int{2, 1, 0, yUndefaulted | ySelectorShapes | yHealthDims, nC15},
				[]string{"reconcile never panics"}, []string{"empty selector", "DoesNotExist selector"}),
		},
		Stubs:        ctlStubs,
		Assumptions:  []string{"replicas and revisionHistoryLimit are non-nil (the CRD schema requires/defaults them)", "getPatch/ApplyRevision models as in C03"},
		OutsideClaim: []string{"huge replica counts (allocation)", "arbitrary template content", "a nil selector (the CRD requires the field)"},
	})

	register(&spec{
		ID: "C13", Title: "History is trimmed only beyond the limit and never loses a live revision",
		Runs: []runSpec{
			{Name: "history", Pkg: pkgCtl, Func: "VH_History", Quick: []int{2, 1, 3}, Thorough: []int{2, 2, 3},
				Bounds: func(a []int) string {
					return fmt.Sprintf("sync(key) over the update revision plus %d more revisions, each with owner in {this set, another controller, none} x {selector labels, labels+upgrade marker, marker only} and an arbitrary revision number in [0,2^40); %d pods each naming any own revision; revisionHistoryLimit arbitrary int32 >= 0", a[0], a[1])
				},
				Asserts: []string{"only revisions of this set are deleted", "live revisions are never deleted", "history is trimmed only beyond the limit", "at most revisionHistoryLimit unused revisions remain", "exactly the surplus is deleted"},
				Covers:  []string{"a revision delete was issued", "reconcile succeeded"}},
			{Name: "history-two-pods", Pkg: pkgCtl, Func: "VH_History", Quick: []int{1, 2, 3}, Thorough: []int{2, 2, 1},
				Bounds: func(a []int) string {
					return fmt.Sprintf("as above with %d extra revision(s) and %d pods, replicas in [0,%d] so that pods may be condemned while still naming their revision", a[0], a[1], a[1])
				},
				Asserts: []string{"live revisions are never deleted"},
				Covers:  []string{"a revision delete was issued"}},
			{Name: "history-rollback", Pkg: pkgCtl, Func: "VH_History", Quick: []int{2, 1, 4}, Thorough: []int{2, 2, 5},
				Bounds: func(a []int) string {
					return fmt.Sprintf("as 'history' (own revisions only in the quick tier) but the stored revision that equals the template may be older than the %d others, so the reconcile re-uses and renumbers it (a rollback) and trims history in the same pass; %d pod(s)", a[0], a[1])
				},
				Asserts: []string{"live revisions are never deleted", "at most revisionHistoryLimit unused revisions remain"},
				Covers:  []string{"a revision delete was issued", "the revision of the template may be an old one"}},
		},
		Stubs:        ctlStubs,
		Assumptions:  []string{"creation timestamps of the revisions are equal (ties are broken by name)", "getPatch/ApplyRevision models as in C03"},
		OutsideClaim: []string{"more revisions than the bound", "revision numbers at the int64 overflow edge"},
	})

	register(&spec{
		ID: "C08", Title: "Update revision mirrors the template; scaling edits never cause a restart",
		Runs: []runSpec{
			{Name: "revisions", Pkg: pkgCtl, Func: "VH_Revisions", Quick: []int{2, 3 | 32}, Thorough: []int{3, 3 | 32},
				Bounds: func(a []int) string {
					return fmt.Sprintf("%d stored revisions with data in {A,B,C} and arbitrary distinct revision numbers in [1,2^40), template in {A,B,C}, collision count nil/0/1/2, optional engineered name collision with a revision of different data, stored status.updateRevision empty or naming any stored revision (stale status), one follow-up reconcile after each of 5 non-template edits", a[0])
				},
				Asserts: []string{"an unchanged template writes no revision", "a rollback renumbers the old revision instead of creating one", "a new template creates a revision",
					"status.updateRevision names a stored revision of the current template", "a colliding revision of different data is never overwritten", "a non-template edit keeps the update revision"},
				Covers: []string{"template unchanged", "rollback to an older revision", "new template", "engineered name collision", "colliding revision carries the same hash label", "non-template edit reconciled", "stored status names a stored revision as the update revision"}},
			{Name: "revisions-small-history-limit", Pkg: pkgCtl, Func: "VH_Revisions", Quick: []int{2, 6}, Thorough: []int{3, 6},
				Bounds: func(a []int) string {
					return fmt.Sprintf("as above with revisionHistoryLimit in {0,1}: %d stored revisions, so that history trimming runs in the same reconcile that creates, re-uses or renumbers the update revision", a[0])
				},
				Asserts: []string{"status.updateRevision names a stored revision", "a non-template edit keeps the update revision"},
				Covers:  []string{"rollback to an older revision", "new template"}},
			{Name: "revisions-tied-numbers", Pkg: pkgCtl, Func: "VH_Revisions", Quick: []int{2, 16}, Thorough: []int{3, 16},
				Bounds: func(a []int) string {
					return fmt.Sprintf("%d stored revisions as above whose numbers may coincide (adopted revisions, racing writers): the history order is number, then creation time, then name", a[0])
				},
				Asserts: []string{"status.updateRevision names a stored revision of the current template", "a rollback renumbers the old revision instead of creating one", "an unchanged template writes no revision"},
				Covers:  []string{"two stored revisions share a number", "rollback to an older revision", "template unchanged"}},
			{Name: "revisions-conflict-on-renumbering", Pkg: pkgCtl, Func: "VH_Revisions", Quick: []int{2, 8}, Thorough: []int{3, 8},
				Bounds: func(a []int) string {
					return fmt.Sprintf("%d stored revisions as above; the write that renumbers a re-used revision may be rejected once with a conflict and is retried by the controller", a[0])
				},
				Asserts: []string{"after a rollback the re-used revision carries the highest number", "a re-used revision is renumbered above all others"},
				Covers:  []string{"rollback to an older revision", "fault injected at rev.update"}},
		},
		Stubs: ctlStubs,
		Assumptions: []string{
			"getPatch is modelled as a deterministic function of the pod template only, ApplyRevision as restoring the recorded template (the real codecs run in the native replay of sampled paths)",
			"stored revision numbers are distinct and below 2^40",
		},
		OutsideClaim: []string{"the clauses 'applying the recorded data reproduces the template exactly' and 'only the template influences the patch' are statements about runtime.Encode/strategic-merge-patch/encoding/json and are not decided (DESIGN.md section 6)", "hash labels that parse as different integers for equal data (D11)"},
	})

	register(&spec{
		ID: "C06", Title: "Stable identity and storage per ordinal; claims come first and are never removed",
		Runs: []runSpec{
			{Name: "create", Pkg: pkgCtl, Func: "VH_Pod", Quick: []int{2, 1}, Thorough: []int{2, 2},
				Bounds: func(a []int) string {
					return fmt.Sprintf("ordinal in [0,4], partition in [0,5], 0..%d claim templates (labels nil/non-nil, clashing template volume or not), each claim absent / on the API server only / in the cache, up to %d failing call(s) among claim lookups, claim creates and the pod create (4 error kinds)", a[0], a[1])
				},
				Asserts: []string{"pod name is <set>-<ordinal>", "controlling owner reference to the set by UID", "every claim exists before the pod create is issued", "a claim that cannot be created prevents the pod create", "created claims carry the selector's match labels"},
				Covers:  []string{"pod created after its claims", "claim lookup or creation failed", "template volume clashes with a claim template"}},
			{Name: "recreate", Pkg: pkgCtl, Func: "VH_Pod", Quick: []int{2, 0}, Thorough: []int{2, 0},
				Bounds: func(a []int) string {
					return fmt.Sprintf("as above without faults, followed by deletion of the pod and a second creation of the same ordinal (0..%d claim templates)", a[0])
				},
				Asserts: []string{"a re-created ordinal re-uses its claims", "claims survive scale-in", "a re-created ordinal references the same claims"},
				Covers:  []string{"ordinal re-created"}},
			{Name: "identity-with-template-fields", Pkg: pkgCtl, Func: "VH_Pod", Quick: []int{1, 0, 1}, Thorough: []int{2, 0, 1},
				Bounds: func(a []int) string {
					return fmt.Sprintf("as 'recreate' (0..%d claim templates) with a pod template that may itself carry hostname, subdomain, name and namespace, and a set named web-1 or db.prod", a[0])
				},
				Asserts: []string{"hostname is the pod name", "subdomain is the governing service", "pod name is <set>-<ordinal>", "pod lives in the set's namespace"},
				Covers:  []string{"template carries hostname, subdomain, name and namespace", "set name with a dot"}},
		},
		Stubs:        ctlStubs,
		Assumptions:  []string{"set name, namespace, service and claim-template names are fixed constants (a name with '-' and a digit); the claim client fake implements only Create, so any update/delete of a claim is a crash of the harness", "ApplyRevision model as in C03"},
		OutsideClaim: []string{"arbitrary names"},
		MapOrder:     []string{"(*" + pkgCtl + ".realStatefulPodControl).createPersistentVolumeClaims", pkgCtl + ".updateStorage"},
	})

	register(&spec{
		ID: "C16", Title: "No lost wake-ups: every relevant event gets the right set reconciled",
		Runs: []runSpec{
			{Name: "events", Pkg: pkgCtl, Func: "VH_Events", Quick: []int{0}, Thorough: []int{0},
				Bounds: func(a []int) string {
					return "the real constructor NewStatefulSetController wired to recording informers; one event of each kind delivered through the handlers it registered (pod add, update, delete, tombstone, junk tombstone; set add+delete, set tombstone, set update) over every combination of owner {none, this set, stale UID, other kind, second set} x label match {none, set1, set2, both} x terminating, old and new pod for updates, resource versions equal or not; set updates over spec/generation changed x status changed x delete-slots annotation added/removed x pause flag raised/lowered/kept x labels changed, and a resync with identical objects; two sets in the real lister"
				},
				Asserts: []string{"exactly the sets the event concerns are enqueued", "one handler each is registered for pods and for sets"},
				Covers:  []string{"event kind 0", "event kind 1", "event kind 2", "event kind 3", "event kind 4", "event kind 5", "event kind 6", "event kind 7", "a set changed", "set resync"}},
			{Name: "events-invalid-selector", Pkg: pkgCtl, Func: "VH_Events", Quick: []int{1}, Thorough: []int{1},
				Bounds: func(a []int) string {
					return "as above with a third set whose selector is invalid in the same namespace"
				},
				Asserts: []string{"exactly the sets the event concerns are enqueued"}},
			{Name: "events-negative-selector", Pkg: pkgCtl, Func: "VH_Events", Quick: []int{2}, Thorough: []int{2},
				Bounds: func(a []int) string {
					return "as 'events' with a third set whose selector is a NotIn expression (it matches every pod that lacks the key)"
				},
				Asserts: []string{"exactly the sets the event concerns are enqueued"}, Covers: []string{"a set with a NotIn selector lives in the namespace"}},
			{Name: "worker", Pkg: pkgCtl, Func: "VH_Worker", Quick: []int{0}, Thorough: []int{0},
				Bounds: func(a []int) string {
					return "one processNextWorkItem over sync with up to one failing API call (six error kinds) at any call position; set present, paused or gone"
				},
				Asserts: []string{"a failed reconcile is put back with backoff", "a successful reconcile clears its backoff", "the key is always marked done"},
				Covers:  []string{"reconcile with a failing API call", "reconcile without failures"}},
		},
		Stubs:        wiringStubs,
		Assumptions:  []string{"the work queue is a recording fake", "symbolic mode replaces record.NewBroadcaster, workqueue.NewNamedRateLimitingQueue and workqueue.DefaultControllerRateLimiter by inert models (the native replay runs the real ones)", "informers are fakes that record the registered handlers and deliver one event"},
		OutsideClaim: []string{"sequences of several events", "the real rate-limiting queue"},
	})

	rtRun := func(area int, what string) runSpec {
		return runSpec{Name: fmt.Sprintf("round-trip-area%d", area), Pkg: pkgHelper, Func: "VH_RoundTrip", Quick: []int{area}, Thorough: []int{area},
			Bounds: func(a []int) string {
				return "FromBuiltinStatefulSet then ToBuiltinStatefulSet (real code) on a built-in StatefulSet varied over " + what
			},
			Asserts: []string{"read back equals what was written in every modelled field", "conversion to the Advanced API never fails", "conversion to the built-in API never fails", "the object read back is typed apps/v1", "metadata survives the conversion", "status survives the conversion"},
			Covers:  []string{fmt.Sprintf("round trip area %d", area)}}
	}
	// the conversions used to be replaced by hand-written models; they now run for real over the
	// engine's structural JSON model (symgo/jsonmodel.go)
	_ = map[string]string{
		pkgHelper + ".FromBuiltinStatefulSet": "vFromBuiltinModel",
		pkgHelper + ".ToBuiltinStatefulSet":   "vToBuiltinModel",
	}
	register(&spec{
		ID: "C17", Title: "Upgrade from built-in StatefulSet never loses pods and survives interruption",
		Runs: []runSpec{
			{Name: "upgrade", Pkg: pkgHelper, Func: "VH_Upgrade", Quick: []int{2, 1, 3}, Thorough: []int{3, 2, 3},
				Bounds: func(a []int) string {
					return fmt.Sprintf("0..%d revisions of the set plus one foreign revision, Advanced object pre-existing or not, the set at 3 replicas or scaled to zero, selector = matchLabels (1 or 2 keys) or matchLabels+matchExpressions, %d interrupted run(s) each failing (5 error kinds) or crashing at any API call, then one clean run", a[0], a[1])
				},
				Asserts: []string{"the built-in set is deleted with orphan propagation", "an Advanced StatefulSet exists before the built-in one is removed", "same spec", "same status",
					"every revision of the set carries the upgrade marker", "selector labels are removed from every revision of the set", "the built-in set is gone exactly when the helper reported success"},
				Covers: []string{"built-in delete issued", "upgrade completed", "crash injected", "advanced object pre-exists", "set scaled to zero", "pre-existing object differs in more than replicas"}},
			{Name: "upgrade-expression-selector", Pkg: pkgHelper, Func: "VH_Upgrade", Quick: []int{1, 0, 4}, Thorough: []int{2, 1, 4},
				Bounds:  func(a []int) string { return "as above including a selector made of matchExpressions only" },
				Asserts: []string{"selector labels are removed from every revision of the set"}},
		},
		Stubs:        nil,
		Assumptions:  []string{"FromBuiltinStatefulSet runs for real; encoding/json over API objects is the engine's structural model (see C19 round-trip runs), the native replay uses the real package", "the pod and claim clients are not implemented by the fakes: any call to them crashes the harness"},
		OutsideClaim: []string{"more than two interruptions", "arbitrary selectors and label sets (four fixed shapes)"},
	})

	register(&spec{
		ID: "C19", Title: "Client-side helpers are lossless",
		Runs: []runSpec{
			{Name: "annotations", Pkg: pkgHelper, Func: "VH_Annotations", Quick: []int{2}, Thorough: []int{3},
				Bounds: func(a []int) string {
					return fmt.Sprintf("slot sets of up to %d arbitrary int32 (plus up to 2 added ones), annotation map nil / empty / with two unrelated keys, nil and empty sets, the pause flag set/unset/re-set", a[0])
				},
				Asserts: []string{"every written slot is read back", "nothing but the written slots is read back", "union contains the added slots", "other annotations are untouched by the slot helpers", "pause flag reads back true", "un-pausing removes the annotation"}},
			{Name: "defaulting-area0", Pkg: pkgAppsV1, Func: "VH_Defaults", Quick: []int{0}, Thorough: []int{0},
				Bounds: func(a []int) string {
					return "SetObjectDefaults_StatefulSet twice on an object varied over: set-level fields (policy/strategy strings in {\"\", valid, \"Foo\"}, rollingUpdate nil / empty / arbitrary int32 partition, replicas and history limit nil or arbitrary int32)"
				},
				Asserts: []string{"defaulting twice equals defaulting once"}, Covers: []string{"defaulted"}},
			{Name: "defaulting-area1", Pkg: pkgAppsV1, Func: "VH_Defaults", Quick: []int{1}, Thorough: []int{1},
				Bounds: func(a []int) string {
					return "SetObjectDefaults_StatefulSet twice on an object varied over: pod-level fields (DNS/restart policy, scheduler, security context, arbitrary int64 grace period)"
				},
				Asserts: []string{"defaulting twice equals defaulting once"}, Covers: []string{"defaulted"}},
			{Name: "defaulting-area2", Pkg: pkgAppsV1, Func: "VH_Defaults", Quick: []int{2}, Thorough: []int{2},
				Bounds: func(a []int) string {
					return "SetObjectDefaults_StatefulSet twice on an object varied over: one volume of each of 10 source kinds incl. none (defaults to EmptyDir), optional modes"
				},
				Asserts: []string{"defaulting twice equals defaulting once"}, Covers: []string{"defaulted"}},
			{Name: "defaulting-area3", Pkg: pkgAppsV1, Func: "VH_Defaults", Quick: []int{3}, Thorough: []int{3},
				Bounds: func(a []int) string {
					return "SetObjectDefaults_StatefulSet twice on an object varied over: container basics (3 image literals, pull policy, termination fields, port with arbitrary int32 ports and protocol) with and without hostNetwork and an init container"
				},
				Asserts: []string{"defaulting twice equals defaulting once"}, Covers: []string{"defaulted"}},
			{Name: "defaulting-area4", Pkg: pkgAppsV1, Func: "VH_Defaults", Quick: []int{4}, Thorough: []int{4},
				Bounds: func(a []int) string {
					return "SetObjectDefaults_StatefulSet twice on an object varied over: container env fieldRef, probes with arbitrary int32 timings and HTTP/gRPC actions, lifecycle hook"
				},
				Asserts: []string{"defaulting twice equals defaulting once"}, Covers: []string{"defaulted"}},
			rtRun(0, "metadata: labels and annotations nil / empty / populated with symbolic values, arbitrary generation, resourceVersion, generateName, finalizers nil / empty / two, owner references none / empty / one with symbolic controller and blockOwnerDeletion flags, deletion timestamp and grace period"),
			rtRun(1, "spec: replicas and history limit nil or arbitrary int32, selector nil / empty / matchLabels / one expression, service name, arbitrary policy and strategy strings, rollingUpdate nil / empty / arbitrary partition / with the unmodelled maxUnavailable, claim templates nil / empty / one"),
			rtRun(2, "pod template: labels, annotations, image, pull policy, ports nil / empty / one with arbitrary port, env value or fieldRef, grace period, hostNetwork, restart policy, init container, security context nil / empty / runAsUser"),
			rtRun(3, "status: all counters arbitrary, revisions, collision count nil or arbitrary, conditions nil / empty / one, the unmodelled availableReplicas"),
			{Name: "list-round-trip", Pkg: pkgHelper, Func: "VH_ListRoundTrip", Quick: []int{2}, Thorough: []int{3},
				Bounds: func(a []int) string {
					return fmt.Sprintf("ToBuiltinStetefulsetList over lists of 0..%d items (nil and empty Items) with arbitrary status counters, list resourceVersion / continue token / remainingItemCount present or not", a[0])
				},
				Asserts: []string{"lists keep their length", "lists keep their order", "list metadata (resourceVersion, continue token, remaining count) survives", "list items are typed apps/v1"},
				Covers:  []string{"list of 0", "list of 2"}},
		},
		Assumptions: []string{"encoding/json round trip of []int32 is lossless (std library contract)", "resource lists are nil (quantity rounding uses arbitrary-precision decimals)",
			"round-trip runs: encoding/json over API objects is the engine's structural model (fields matched by JSON name, omitempty, flattened embedded structs, null handling; types with their own MarshalJSON - Time, Quantity, IntOrString - are copied); the native replay of the sampled paths runs the real package and must produce the same trace"},
		OutsideClaim: []string{"clause (a) beyond the modelled schema: the round-trip runs vary the fields listed in their bounds; other template content (volumes, probes, affinity, ...) is not varied there", "the hijack client's Create/Update path composes this conversion with defaulting (decided separately by the defaulting runs)"},
	})

	register(&spec{
		ID: "C02", Title: "Reconciliation converges to exactly the desired pods and then goes quiet",
		Runs: []runSpec{
			{Name: "converge", Pkg: pkgCtl, Func: "VH_Converge", Quick: []int{1, 2, 1, oThreeRevs}, Thorough: []int{2, 2, 1, oThreeRevs},
				Bounds: func(a []int) string {
					return fmt.Sprintf("bounded unrolling: from a snapshot with <=%d pods (any phase/readiness/terminating/revision mix) at ordinals of [0,%d], replicas in [0,%d], <=%d delete slots, any policy/strategy/partition, up to %d rounds of {cache refresh, real sync(key), fair kubelet step} until nothing changes, then two more reconciles", a[0], a[1]+a[2], a[1], a[2], 3*(a[0]+a[1]+a[2])+4)
				},
				Asserts: []string{"a fixed point is reached within the derived number of rounds", "no pod outside the desired set remains", "every desired ordinal has its pod", "once converged a reconcile issues no write", "status.readyReplicas equals spec.replicas"},
				Covers:  []string{"converged and quiet"}, MaxSteps: 40_000_000},
			{Name: "converge-without-history", Pkg: pkgCtl, Func: "VH_Converge", Quick: []int{1, 2, 1, oThreeRevs | oLeanPods | oNoHistory}, Thorough: []int{2, 2, 1, oThreeRevs | oLeanPods | oNoHistory},
				Bounds: func(a []int) string {
					return fmt.Sprintf("as above with revisionHistoryLimit 0 (history trimming runs in every reconcile, also while a held-back update leaves no pod at the update revision) and <=%d healthy pods of any revision", a[0])
				},
				Asserts: []string{"a fixed point is reached within the derived number of rounds", "once converged a reconcile issues no write"},
				Covers:  []string{"converged and quiet"}, MaxSteps: 40_000_000},
		},
		Stubs:        ctlStubs,
		Assumptions:  append([]string{"fairness premise: Failed/Succeeded pods lie inside the desired set; no API failures, no user edits during convergence (the start state is arbitrary)"}, stepAssume...),
		OutsideClaim: []string{"liveness beyond the unrolling bound (a proof would be needed)", "unfair schedules, API faults (C09)", "pods with foreign owners or odd names (C10)"},
	})

	faultBounds := func(a []int) string {
		what := fmt.Sprintf("fails with one of %d error kinds (server error, conflict, not-found, already-exists, timeout, invalid; lost responses modelled)", a[4])
		if a[5] == 1 {
			what = "kills the process"
		}
		return fmt.Sprintf("one sync(key) from a snapshot with <=%d pods at ordinals of [0,%d], replicas in [0,%d], <=%d slots, options=%#x, during which any one API call (read or write on pods, claims, revisions, the set, its status) %s; then up to %d fault-free rounds of {refresh, sync, kubelet}", a[0], a[1]+a[2], a[1], a[2], a[3], what, 3*(a[0]+a[1]+a[2])+6)
	}
	register(&spec{
		ID: "C09", Title: "A failure or crash at any API call is reported, harmless, and recoverable",
		Runs: []runSpec{
			{Name: "failure", Pkg: pkgCtl, Func: "VH_Fault", Quick: []int{1, 1, 1, oLeanPods | oThreeRevs, 3, 0}, Thorough: []int{1, 1, 1, oThreeRevs, 6, 0}, Bounds: faultBounds,
				Asserts: []string{"a failed API call makes the reconcile report failure", "after the failure a fixed point is reached", "every delete has a reason", "created ordinal is desired", "no pod outside the desired set remains"},
				Covers:  []string{"a call failed", "recovered from a failure", "fault injected at pod.create", "fault injected at pod.delete", "fault injected at set.updateStatus", "fault injected at rev.list", "fault injected at pvc.create"}, MaxSteps: 40_000_000},
			{Name: "failure-with-orphan-pods", Pkg: pkgCtl, Func: "VH_Fault", Quick: []int{1, 1, 0, oLeanPods | oOrphanPods, 3, 0}, Thorough: []int{1, 1, 1, oLeanPods | oOrphanPods, 3, 0}, Bounds: faultBounds,
				Asserts: []string{"a failed API call makes the reconcile report failure", "after the failure a fixed point is reached"},
				Covers:  []string{"an orphan pod waits for adoption", "fault injected at set.get", "fault injected at pod.patch"}, MaxSteps: 40_000_000},
			{Name: "two-failures", Pkg: pkgCtl, Func: "VH_Fault", Quick: []int{0, 1, 0, oLeanPods, 2, 0, 2}, Thorough: []int{1, 1, 1, oLeanPods | oThreeRevs, 2, 0, 2},
				Bounds: func(a []int) string {
					return fmt.Sprintf("as 'failure' with up to two failing calls in the same reconcile (server error or conflict), <=%d pods, replicas in [0,%d], <=%d slots", a[0], a[1], a[2])
				},
				Asserts: []string{"a failed API call makes the reconcile report failure", "after the failure a fixed point is reached"},
				Covers:  []string{"two calls failed in one reconcile"}, MaxSteps: 40_000_000},
			{Name: "failure-compared-with-a-run-without-failures", Pkg: pkgCtl, Func: "VH_Fault", Quick: []int{1, 1, 0, oThreeRevs, 1, 0, 1, 1}, Thorough: []int{1, 1, 1, oThreeRevs, 2, 0, 1, 1},
				Bounds: func(a []int) string {
					return fmt.Sprintf("as 'failure' (one failing call, %d error kinds, <=%d pods of any phase/readiness/revision, replicas in [0,%d], <=%d slots); the same start state is also run without failures and the two final states are compared: pods, their revisions, claims, status counters and revisions", a[4], a[0], a[1], a[2])
				},
				Asserts: []string{"every pod ends at the same revision as in the run without failures", "same current and update revision as the run without failures", "same pods as the run without failures"},
				Covers:  []string{"final state compared with the run without failures", "fault injected at pod.create", "fault injected at pod.delete"}, MaxSteps: 80_000_000},
			{Name: "crash", Pkg: pkgCtl, Func: "VH_Fault", Quick: []int{1, 1, 1, oLeanPods | oThreeRevs, 1, 1}, Thorough: []int{2, 2, 1, oLeanPods | oThreeRevs, 1, 1}, Bounds: faultBounds,
				Asserts: []string{"after the failure a fixed point is reached", "no pod outside the desired set remains"},
				Covers:  []string{"crash injected", "recovered from a crash"}, MaxSteps: 40_000_000},
		},
		Stubs:        ctlStubs,
		Assumptions:  append([]string{"one fault per reconcile in the quick tier; the recovery rounds are fault free", "fairness premise as in C02"}, stepAssume...),
		OutsideClaim: []string{"more than two faults in one reconcile", "faults during the recovery rounds", "in the comparison with the run without failures: the revision of pods created under RollingUpdate without a rollingUpdate block (legacy status.currentReplicas rule), and the revision history beyond the current and update revision"},
	})

	register(&spec{
		ID: "C18", Title: "Migration keeps pods running: revision identity equals the built-in controller's",
		Runs: []runSpec{
			{Name: "migrate", Pkg: pkgCtl, Func: "VH_Migrate", Quick: []int{2}, Thorough: []int{3},
				Bounds: func(a []int) string {
					return fmt.Sprintf("four reconciles (with garbage-collector steps that orphan one revision at a time, and kubelet steps, between) on the world the upgrade helper leaves behind: %d pods at the current or update revision consistent with a partition in [0,%d], owned by nobody or still by the built-in UID, one or two marker-only orphan revisions (hash labels computed under collision count 0) while status.collisionCount is nil, 0 or 1, both policies", a[0], a[0])
				},
				Asserts: []string{"the update revision resolves to the adopted built-in revision", "every marked revision is adopted", "revisions are label-synced before they are adopted", "every pod ends up adopted by the Advanced set", "the pod population is unchanged"},
				Covers:  []string{"migration reconciled", "the built-in set saw a hash collision"}},
			{Name: "migrate-with-a-failing-revision-write", Pkg: pkgCtl, Func: "VH_Migrate", Quick: []int{2, 1}, Thorough: []int{3, 1},
				Bounds: func(a []int) string {
					return fmt.Sprintf("as above (%d pods) with one failing label-sync or adoption write (server error or conflict)", a[0])
				},
				Asserts: []string{"every marked revision is adopted", "the update revision resolves to the adopted built-in revision"},
				Covers:  []string{"migration reconciled", "fault injected at rev.update"}},
		},
		Stubs: ctlStubs,
		Assumptions: []string{
			"ASSUMED, not decided: the revision data the Advanced controller computes for the converted set is byte-identical to the data the built-in controller recorded (getPatch is modelled so that the template variant determines the bytes); this is the codec clause of the statement (DESIGN.md section 6)",
			"a rollout in progress is halted by the partition (pods at or above it are already at the update revision)",
		},
		OutsideClaim: []string{"byte-identity of the patch with the upstream encoder for every pod template", "histories longer than two revisions"},
	})

	register(&spec{
		ID: "C20", Title: "Hijacked watch relays everything, survives error events, shuts down cleanly",
		Runs: []runSpec{
			{Name: "watch", Pkg: pkgHelper, Func: "VH_Watch", Quick: []int{2, 1, 5}, Thorough: []int{2, 2, 5},
				Bounds: func(a []int) string {
					return fmt.Sprintf("source sends 0..%d events, each of one of %d types (Added, Modified, Deleted, Bookmark, Error with a Status payload), then closes; the consumer reads any number of them, calls Stop %d time(s) and stops reading; every interleaving of the three goroutines at synchronisation operations with at most 2 (quick) / 3 (thorough) preemptive context switches (switches at blocking operations are unbounded; <= 400 scheduling points)", a[0], a[2], a[1])
				},
				Asserts: []string{"events arrive in order with their type", "every event the consumer waits for is delivered", "no goroutine is left behind after the consumer stopped or the source ended", "the result channel is closed after the consumer stopped or the source ended"},
				Covers:  []string{"watch shut down"}},
		},
		Stubs:        nil,
		Preempt:      [2]int{2, 3},
		Assumptions:  []string{"ToBuiltinStatefulSet runs for real; encoding/json over API objects is the engine's structural model (see C19 round-trip runs), the native replay uses the real package; the harness compares each relayed object with an independent field-copying reference", "context switches happen only at synchronisation operations (exact for race-free code)", "utilruntime.ReallyCrash is switched off in the harness so that a panic of the relay goroutine is observable as a lost event instead of killing the test binary; natively the interleaving is the Go scheduler's, goroutine leaks are observed through runtime.NumGoroutine after a pause"},
		OutsideClaim: []string{"longer event sequences, more than the bounded number of scheduling points"},
	})
}
