package main

import (
	"bytes"
	"crypto/sha256"
	"encoding/json"
	"fmt"
	"os"
	"os/exec"
	"path/filepath"
	"runtime/pprof"
	"sort"
	"strconv"
	"strings"
	"time"

	"symgo/symgo"
)

type runSpec struct {
	Name     string
	Pkg      string
	Func     string
	Quick    []int
	Thorough []int
	Bounds   func(a []int) string // human-readable bounds for the args
	// labels that must be reached on at least one feasible path
	Asserts []string
	Covers  []string
	// optional per-run overrides
	MaxSteps int64
	Samples  [2]int // quick, thorough (0 = default 40 / 400)
	ValueCap int
	// NoMapOrder: this run does not explore map iteration orders (spec.MapOrder is ignored)
	NoMapOrder bool
}

type spec struct {
	ID           string
	Title        string
	Runs         []runSpec
	Stubs        map[string]string
	Assumptions  []string
	OutsideClaim []string
	Encoded      []string // prefixes of functions whose execution is reported
	MapOrder     []string // functions whose map ranges explore every order
	Preempt      [2]int   // preemption bound of the scheduler (quick, thorough)
}

type knownFinding struct {
	Property      string `json:"property"`
	Label         string `json:"label"`
	Discriminator string `json:"discriminator"`
	What          string `json:"what"`
	Status        string `json:"status"` // known | fixed
	Commit        string `json:"commit,omitempty"`
}

func loadKnown() []knownFinding {
	b, err := os.ReadFile(filepath.Join(verifDir, "known_findings.json"))
	if err != nil {
		return nil
	}
	var ks []knownFinding
	if err := json.Unmarshal(b, &ks); err != nil {
		fatal("known_findings.json: %v", err)
	}
	return ks
}

type replayCase struct {
	ID      string            `json:"id"`
	Harness string            `json:"harness"`
	Args    []int             `json:"args"`
	Model   map[string]uint64 `json:"model"`
}

type nativeResult struct {
	Notes        []string `json:"notes"`
	FailedLabels []string `json:"failed"`
	Reached      []string `json:"asserts_reached"`
	Covers       []string `json:"covers"`
	Panic        string   `json:"panic,omitempty"`
	AssumeFailed bool     `json:"assume_failed,omitempty"`
}

// replayFileT is the on-disk format of /verif/replays/*.json.
type replayFileT struct {
	Property string            `json:"property"`
	Pkg      string            `json:"pkg"`
	Harness  string            `json:"harness"`
	Args     []int             `json:"args"`
	Label    string            `json:"label"`
	Disc     string            `json:"discriminator"`
	Model    map[string]uint64 `json:"model"`
	Notes    []string          `json:"symbolic_notes"`
	Events   string            `json:"events"`
}

func pkgDirAndPattern(pkg string) (dir, pattern string) {
	if strings.HasPrefix(pkg, modPath+"/client/") {
		return filepath.Join(repoDir, "client"), "./" + strings.TrimPrefix(pkg, modPath+"/client/")
	}
	return repoDir, "./" + strings.TrimPrefix(pkg, modPath+"/")
}

// runNative executes cases natively in pkg and returns results by case id.
// nativeScheduleRetries is the number of additional native replays of a
// violation whose model contains scheduler decisions.
const nativeScheduleRetries = 24

func dependsOnSchedule(model map[string]uint64) bool {
	for k := range model {
		if strings.HasPrefix(k, "sched!") || strings.HasPrefix(k, "select!") {
			return true
		}
	}
	return false
}

func runNative(workDir, pkg string, cases []replayCase) (map[string]nativeResult, string, error) {
	os.MkdirAll(workDir, 0o755)
	_, files := buildOverlay()
	ov := struct{ Replace map[string]string }{files}
	ovPath := filepath.Join(workDir, "overlay.json")
	writeJSON(ovPath, ov)
	inPath := filepath.Join(workDir, "cases-"+shortHash(pkg)+".json")
	outPath := filepath.Join(workDir, "results-"+shortHash(pkg)+".json")
	writeJSON(inPath, cases)
	os.Remove(outPath)
	dir, pattern := pkgDirAndPattern(pkg)
	cmd := exec.Command("go", "test", "-tags", "verif", "-overlay", ovPath, "-vet=off", "-count=1", "-timeout", "30m", "-run", "^TestVerifReplay$", pattern)
	cmd.Dir = dir
	cmd.Env = append(os.Environ(), "GOFLAGS=-mod=mod", "GOPROXY=off", "GOSUMDB=off", "GOTOOLCHAIN=local",
		"VERIF_REPLAY="+inPath, "VERIF_REPLAY_OUT="+outPath, "VERIF_TWIN="+symgo.TwinLabel)
	var out bytes.Buffer
	cmd.Stdout, cmd.Stderr = &out, &out
	err := cmd.Run()
	b, rerr := os.ReadFile(outPath)
	if rerr != nil {
		return nil, out.String(), fmt.Errorf("native replay produced no result file (go test: %v)", err)
	}
	res := map[string]nativeResult{}
	if jerr := json.Unmarshal(b, &res); jerr != nil {
		return nil, out.String(), jerr
	}
	return res, out.String(), nil
}

func shortHash(s string) string {
	h := sha256.Sum256([]byte(s))
	return fmt.Sprintf("%x", h[:5])
}

func sameStrings(a, b []string) bool {
	if len(a) != len(b) {
		return false
	}
	for i := range a {
		if a[i] != b[i] {
			return false
		}
	}
	return true
}

func setOf(xs []string) []string {
	m := map[string]bool{}
	for _, x := range xs {
		m[x] = true
	}
	var out []string
	for x := range m {
		out = append(out, x)
	}
	sort.Strings(out)
	return out
}

func contains(xs []string, x string) bool {
	for _, y := range xs {
		if y == x {
			return true
		}
	}
	return false
}

func check(id, tier string, seed int64, workers int, verbose bool, only string, noNative bool, argsOverride string) int {
	t0 := time.Now()
	sp, ok := specs[id]
	if !ok {
		fatal("unknown property %s", id)
	}
	if tier != "quick" && tier != "thorough" {
		fatal("tier must be quick or thorough")
	}
	known := loadKnown()
	pkgSet := map[string]bool{}
	for _, r := range sp.Runs {
		pkgSet[r.Pkg] = true
	}
	var patterns []string
	for p := range pkgSet {
		patterns = append(patterns, p)
	}
	sort.Strings(patterns)
	ld := load(patterns...)
	if verbose {
		fmt.Fprintf(os.Stderr, "loaded %d packages in %v\n", len(ld.prog.AllPackages()), ld.took)
	}
	if profPath != "" {
		f, _ := os.Create(profPath)
		pprof.StartCPUProfile(f)
	}
	cfg := &symgo.Config{Stubs: sp.Stubs, FreezeProperty: id, MapOrderFuncs: map[string]bool{}}
	for _, f := range sp.MapOrder {
		cfg.MapOrderFuncs[f] = true
	}
	cfg.NoIfConv = os.Getenv("SYMGO_NOIFCONV") != ""
	cfg.MaxPreempt = sp.Preempt[0]
	if tier == "thorough" {
		cfg.MaxPreempt = sp.Preempt[1]
	}
	workDir := filepath.Join(verifDir, ".work", id+"-"+tier)
	os.RemoveAll(workDir)

	var inconclusive []string
	type runOut struct {
		spec runSpec
		args []int
		res  *symgo.Result
	}
	var outs []runOut
	totalPaths, totalDecisions, totalQueries := int64(0), int64(0), int64(0)
	ifConverted, ifBailed := int64(0), int64(0)
	solverRetries := int64(0)
	var solverTime time.Duration
	validated := 0
	diffChecked := 0
	var sampleOut []interface{}
	violationsReported := 0
	funcs := map[string]int64{}
	funcInstrs := map[string]int{}
	reach := map[string]int64{}
	var boundsText []string
	exit := 0

	for _, r := range sp.Runs {
		if only != "" && r.Name != only {
			continue
		}
		args := r.Quick
		nsamp := r.Samples[0]
		if nsamp == 0 {
			nsamp = 40
		}
		if tier == "thorough" {
			args = r.Thorough
			nsamp = r.Samples[1]
			if nsamp == 0 {
				nsamp = 400
			}
		}
		if argsOverride != "" {
			args = nil
			for _, f := range strings.Split(argsOverride, ",") {
				v, _ := strconv.Atoi(f)
				args = append(args, v)
			}
		}
		pkg := ld.pkgs[r.Pkg]
		if pkg == nil {
			fatal("package %s not loaded", r.Pkg)
		}
		fn := pkg.Func(r.Func)
		if fn == nil {
			fatal("harness %s not found in %s", r.Func, r.Pkg)
		}
		opts := symgo.Options{Workers: workers, Seed: seed, Samples: nsamp, Property: id, MaxSteps: r.MaxSteps, ValueCap: r.ValueCap, TimeoutMs: 120000}
		if verbose {
			opts.Progress = func(s string) { fmt.Fprintln(os.Stderr, s) }
		}
		if verbose {
			symgo.InitTrace = func(s string) { fmt.Fprintln(os.Stderr, "  "+s) }
		}
		if tier == "thorough" || os.Getenv("SYMGO_DIFF") != "" {
			opts.DiffQueries = 12
		}
		opts.MaxPaths = devMaxPaths
		if devDeadline > 0 {
			opts.Deadline = time.Now().Add(devDeadline)
		}
		if os.Getenv("SYMGO_STEPPROFILE") != "" && workers == 1 {
			symgo.StepProfile = map[string]int64{}
		}
		runCfg := cfg
		if r.NoMapOrder {
			c := *cfg
			c.MapOrderFuncs = map[string]bool{}
			runCfg = &c
		}
		res := symgo.Explore(ld.prog, fn, args, runCfg, opts)
		if symgo.StepProfile != nil {
			type kv struct {
				k string
				v int64
			}
			var kvs []kv
			for k, v := range symgo.StepProfile {
				kvs = append(kvs, kv{k, v})
			}
			sort.Slice(kvs, func(a, b int) bool { return kvs[a].v > kvs[b].v })
			for k, e := range kvs {
				if k < 45 {
					fmt.Fprintf(os.Stderr, "  steps %10d  %s\n", e.v, e.k)
				}
			}
		}
		outs = append(outs, runOut{r, args, res})
		totalPaths += res.Paths
		totalDecisions += res.Decisions
		totalQueries += res.Queries
		ifConverted += res.IfConverted
		ifBailed += res.IfBailed
		solverRetries += res.SolverRetries
		solverTime += res.SolverTime
		if len(res.Diffs) > 0 {
			n, bad := solverDiff(filepath.Join(workDir, r.Name), res.Diffs)
			diffChecked += n
			for _, m := range bad {
				inconclusive = append(inconclusive, r.Name+": "+m)
			}
		}
		b := fmt.Sprintf("%s %v", r.Name, args)
		if r.Bounds != nil {
			b = r.Name + ": " + r.Bounds(args)
		}
		boundsText = append(boundsText, b)
		if verbose {
			fmt.Fprintf(os.Stderr, "run %s args=%v: paths=%d aborted=%d decisions=%d queries=%d solver=%v wall=%v steps=%d maxevents=%d viol=%d ifconv=%d/%d\n",
				r.Name, args, res.Paths, res.Aborted, res.Decisions, res.Queries, res.SolverTime, res.Wall, res.Steps, res.MaxEvents, len(res.Violations), res.IfConverted, res.IfBailed)
			var ks []string
			for k, v := range res.AssertReach {
				ks = append(ks, fmt.Sprintf("   assert %-50s %d", k, v))
			}
			for k, v := range res.CoverReach {
				ks = append(ks, fmt.Sprintf("   cover  %-50s %d", k, v))
			}
			sort.Strings(ks)
			fmt.Fprintln(os.Stderr, strings.Join(ks, "\n"))
			seenP := map[string]bool{}
			for _, p := range res.Poisoned {
				if !seenP[p] && len(seenP) < 12 {
					fmt.Fprintln(os.Stderr, "   poisoned:", p)
				}
				seenP[p] = true
			}
			fmt.Fprintf(os.Stderr, "   (%d distinct poisoned initialisers)\n", len(seenP))
		}
		for _, m := range res.Inconclusive {
			inconclusive = append(inconclusive, r.Name+": "+m)
		}
		for _, l := range r.Asserts {
			if res.AssertReach[l] == 0 {
				inconclusive = append(inconclusive, fmt.Sprintf("%s: assertion %q was never reached (vacuous harness)", r.Name, l))
			}
		}
		for _, l := range r.Covers {
			if res.CoverReach[l] == 0 {
				inconclusive = append(inconclusive, fmt.Sprintf("%s: cover %q was never reached (vacuous harness)", r.Name, l))
			}
		}
		if res.Paths-res.Aborted <= 0 {
			inconclusive = append(inconclusive, r.Name+": no feasible complete path (assumptions unsatisfiable?)")
		}
		for k, v := range res.AssertReach {
			reach["assert "+r.Name+"/"+k] += v
		}
		for k, v := range res.CoverReach {
			reach["cover "+r.Name+"/"+k] += v
		}
		for f, n := range res.FuncsRun {
			if strings.Contains(f, modPath) && !strings.Contains(f, "zz_verif") && !strings.Contains(f, ".vh") && !strings.Contains(f, ".VH") && !strings.Contains(f, ".vw") {
				funcs[f] += n
				funcInstrs[f] = res.FuncInstrs[f]
			}
		}

		// distinct violations
		type vkey struct{ label, disc string }
		distinct := map[vkey]symgo.Violation{}
		for _, v := range res.Violations {
			k := vkey{v.Label, v.Disc}
			if old, ok := distinct[k]; !ok || len(v.Events) < len(old.Events) || (len(v.Events) == len(old.Events) && v.Events < old.Events) {
				distinct[k] = v
			}
		}
		var vkeys []vkey
		for k := range distinct {
			vkeys = append(vkeys, k)
		}
		sort.Slice(vkeys, func(a, b int) bool {
			if vkeys[a].label != vkeys[b].label {
				return vkeys[a].label < vkeys[b].label
			}
			return vkeys[a].disc < vkeys[b].disc
		})

		// native validation of sampled paths and violations
		var cases []replayCase
		for k, s := range res.Samples {
			cases = append(cases, replayCase{ID: fmt.Sprintf("s%d", k), Harness: r.Func, Args: args, Model: s.Model})
		}
		for k, vk := range vkeys {
			cases = append(cases, replayCase{ID: fmt.Sprintf("v%d", k), Harness: r.Func, Args: args, Model: distinct[vk].Model})
			if dependsOnSchedule(distinct[vk].Model) {
				// the native run is under the Go scheduler, which the model's
				// schedule variables do not steer: the same inputs are replayed
				// several times and any native failure of the assertion counts
				for j := 0; j < nativeScheduleRetries; j++ {
					cases = append(cases, replayCase{ID: fmt.Sprintf("v%d.r%d", k, j), Harness: r.Func, Args: args, Model: distinct[vk].Model})
				}
			}
		}
		var nat map[string]nativeResult
		if !noNative && len(cases) > 0 {
			var logTxt string
			var err error
			nat, logTxt, err = runNative(filepath.Join(workDir, r.Name), r.Pkg, cases)
			if err != nil {
				inconclusive = append(inconclusive, fmt.Sprintf("%s: native replay failed: %v", r.Name, err))
				if verbose {
					fmt.Fprintln(os.Stderr, logTxt)
				}
			}
		}
		if noNative {
			inconclusive = append(inconclusive, r.Name+": native validation skipped")
		}
		if nat != nil {
			for k, s := range res.Samples {
				n, ok := nat[fmt.Sprintf("s%d", k)]
				if !ok {
					inconclusive = append(inconclusive, fmt.Sprintf("%s: sample %d missing from native results", r.Name, k))
					continue
				}
				var why string
				switch {
				case n.AssumeFailed:
					why = "native run rejected the model (assume failed)"
				case n.Panic != "":
					why = "native run panicked: " + n.Panic
				case len(n.FailedLabels) > 0:
					why = "native run failed assertions " + strings.Join(n.FailedLabels, ",")
				case !sameStrings(n.Notes, s.Notes):
					why = "traces differ:\n  symbolic: " + strings.Join(s.Notes, " | ") + "\n  native:   " + strings.Join(n.Notes, " | ")
				case !sameStrings(setOf(n.Reached), s.Asserts):
					why = fmt.Sprintf("assertions reached differ: symbolic %v native %v", s.Asserts, setOf(n.Reached))
				case !sameStrings(setOf(n.Covers), s.Covers):
					why = fmt.Sprintf("covers differ: symbolic %v native %v", s.Covers, setOf(n.Covers))
				}
				if why != "" {
					inconclusive = append(inconclusive, fmt.Sprintf("%s: native differential mismatch on path %s: %s (model %v)", r.Name, s.Events, why, s.Model))
				} else {
					validated++
				}
			}
		}
		for k, s := range res.Samples {
			if k < 3 {
				sampleOut = append(sampleOut, map[string]interface{}{"run": r.Name, "args": args, "events": s.Events, "inputs": s.Model, "trace": s.Notes, "asserts_reached": s.Asserts, "covers": s.Covers})
			}
		}
		for k, vk := range vkeys {
			v := distinct[vk]
			reproduced := false
			if nat != nil {
				n := nat[fmt.Sprintf("v%d", k)]
				tries := []nativeResult{n}
				if dependsOnSchedule(v.Model) {
					for j := 0; j < nativeScheduleRetries; j++ {
						if nj, ok := nat[fmt.Sprintf("v%d.r%d", k, j)]; ok {
							tries = append(tries, nj)
						}
					}
				}
				for _, nj := range tries {
					switch v.Label {
					case "uncaught panic":
						reproduced = reproduced || nj.Panic != ""
					default:
						reproduced = reproduced || contains(nj.FailedLabels, v.Label)
					}
				}
				if !reproduced && verbose {
					fmt.Fprintf(os.Stderr, "violation %q [%s] did not reproduce natively: native=%+v\n  symbolic notes: %v\n  model: %v\n", v.Label, v.Disc, n, v.Notes, v.Model)
				}
			}
			if !reproduced {
				inconclusive = append(inconclusive, fmt.Sprintf("%s: violation of %q [%s] found by the solver did not reproduce natively (encoding or stub mismatch); model %v", r.Name, v.Label, v.Disc, v.Model))
				continue
			}
			// known?
			isKnown := false
			for _, kf := range known {
				if kf.Property == id && kf.Label == v.Label && kf.Discriminator == v.Disc && kf.Status == "known" {
					fmt.Printf("KNOWN-FINDING: property=%s %s [%s / %s]\n", id, kf.What, v.Label, v.Disc)
					isKnown = true
				}
			}
			if isKnown {
				continue
			}
			rf := replayFileT{Property: id, Pkg: r.Pkg, Harness: r.Func, Args: args, Label: v.Label, Disc: v.Disc, Model: v.Model, Notes: v.Notes, Events: v.Events}
			rb, _ := json.Marshal(rf)
			path := filepath.Join(verifDir, "replays", fmt.Sprintf("%s-%s.json", id, shortHash(string(rb))))
			writeJSON(path, rf)
			fmt.Printf("VIOLATION property=%s replay=%s\n", id, path)
			fmt.Printf("  assertion: %s [%s]\n  trace: %s\n", v.Label, v.Disc, strings.Join(v.Notes, " | "))
			violationsReported++
			exit = 1
		}
	}

	if symgo.TwinLabel != "" {
		// self-test: the only acceptable outcome is a reproduced violation of the twin
		if exit == 1 {
			fmt.Printf("TWIN-OK %s %q\n", id, symgo.TwinLabel)
			return 0
		}
		fmt.Printf("TWIN-FAIL %s %q\n", id, symgo.TwinLabel)
		return 1
	}
	if len(inconclusive) > 0 && exit == 0 {
		exit = 3
	}
	for _, m := range inconclusive {
		fmt.Printf("INCONCLUSIVE: %s\n", m)
	}

	// evidence
	type fe struct {
		Func   string `json:"func"`
		Calls  int64  `json:"calls"`
		Instrs int    `json:"ssa_instrs"`
	}
	var fes []fe
	for f, n := range funcs {
		fes = append(fes, fe{f, n, funcInstrs[f]})
	}
	sort.Slice(fes, func(a, b int) bool { return fes[a].Func < fes[b].Func })
	if len(sampleOut) == 0 {
		sampleOut = append(sampleOut, "no complete path was explored")
	}
	if totalPaths == 0 {
		totalPaths = 1
	}
	if totalDecisions == 0 {
		totalDecisions = 1
	}
	ev := map[string]interface{}{
		"property_id": id,
		"tier":        tier,
		"seed":        seed,
		"level":       "model_checking",
		"coverage": map[string]interface{}{
			"states":                              totalPaths,
			"transitions":                         totalDecisions,
			"traces_validated_against_impl":       validated,
			"samples":                             sampleOut,
			"states_meaning":                      "feasible symbolic paths of the harness explored (each stands for all inputs satisfying its path condition)",
			"transitions_meaning":                 "branch / concretisation decisions settled by the SMT solver",
			"functions_encoded":                   fes,
			"bounds":                              boundsText,
			"solver_queries":                      totalQueries,
			"solver_time_s":                       solverTime.Seconds(),
			"solver":                              "z3 4.8.12 (QF_BV, incremental)",
			"queries_rechecked_by_z3new_and_cvc5": diffChecked,
			"branches_if_converted":               ifConverted,
			"paths_rerun_after_solver_trouble":    solverRetries,
			"if_conversions_abandoned":            ifBailed,
			"assert_and_cover_reach":              reach,
			"outside_claim":                       sp.OutsideClaim,
			"stubs":                               stubList(sp),
			"inconclusive":                        inconclusive,
			"exhaustive":                          len(inconclusive) == 0,
			"load_s":                              ld.took.Seconds(),
		},
		"assumptions": sp.Assumptions,
		"wall_s":      time.Since(t0).Seconds(),
		"violations":  violationsReported,
	}
	if symgo.TwinLabel == "" {
		writeJSON(filepath.Join(verifDir, "evidence", id+".json"), ev)
	}
	status := map[int]string{0: "PASS", 1: "VIOLATION", 3: "INCONCLUSIVE"}[exit]
	fmt.Printf("%s property=%s tier=%s paths=%d decisions=%d queries=%d validated=%d wall=%.1fs\n", status, id, tier, totalPaths, totalDecisions, totalQueries, validated, time.Since(t0).Seconds())
	return exit
}

func stubList(sp *spec) []string {
	out := []string{
		"empty bodies: k8s.io/klog/v2.*, utilruntime.HandleError, utilruntime.HandleCrash (no recover), sync.Mutex/RWMutex/WaitGroup, time.Sleep",
		"native on concrete operands: fmt.Sprintf/Sprint/Errorf, strings.*, strconv.*, regexp.*, unicode.*, rand.SafeEncodeString",
		"engine implementations: errors.Is/As, reflect.DeepEqual, Semantic.DeepEqual, sort.Slice, sync.Once, sync/atomic, bytes.Equal, json.Marshal of small structs, json (un)marshal of the delete-slots list (lossless pair for symbolic lists, decoding into any integer slice type with the decoder's type errors; real decoder for concrete strings), json.Marshal/Unmarshal of API objects as a structural model over go/types (names from tags, case-insensitive fallback, flattened embedded structs, omitempty, null, unknown fields dropped; types with their own MarshalJSON copied)",
		"solver answers: every model is re-evaluated against the path condition by the engine; unknown / error / inconsistent answers restart the solver and re-run the path once",
		"time.Now fixed instant, time.Since 0, wait.Jitter identity",
	}
	var ks []string
	for k, v := range sp.Stubs {
		ks = append(ks, "model: "+k+" -> "+v+" (the real function runs in the native replay)")
	}
	sort.Strings(ks)
	return append(out, ks...)
}

// replayFile re-runs a violation replay file natively.
func replayFile(path string) int {
	b, err := os.ReadFile(path)
	if err != nil {
		fatal("%v", err)
	}
	var rf replayFileT
	if err := json.Unmarshal(b, &rf); err != nil {
		fatal("%v", err)
	}
	workDir := filepath.Join(verifDir, ".work", "replay-"+shortHash(path))
	res, logTxt, err := runNative(workDir, rf.Pkg, []replayCase{{ID: "r", Harness: rf.Harness, Args: rf.Args, Model: rf.Model}})
	if err != nil {
		fmt.Println(logTxt)
		fatal("%v", err)
	}
	n := res["r"]
	out, _ := json.MarshalIndent(n, "", " ")
	fmt.Println(string(out))
	failed := contains(n.FailedLabels, rf.Label) || (rf.Label == "uncaught panic" && n.Panic != "")
	if failed {
		fmt.Printf("REPRODUCED property=%s assertion=%q\n", rf.Property, rf.Label)
		return 1
	}
	fmt.Printf("NOT-REPRODUCED property=%s assertion=%q\n", rf.Property, rf.Label)
	return 0
}

func selftest() int {
	fmt.Println("selftest: not yet implemented")
	return 0
}

// solverDiff re-asks a sample of assertion queries, as stand-alone scripts, to
// z3 5.1.0 (z3-new) and cvc5; any disagreement with the verdict z3 4.8.12 gave
// during exploration makes the run inconclusive.
func solverDiff(dir string, qs []symgo.DiffQuery) (int, []string) {
	os.MkdirAll(dir, 0o755)
	sort.Slice(qs, func(a, b int) bool { return qs[a].Script < qs[b].Script })
	if len(qs) > 48 {
		qs = qs[:48]
	}
	var bad []string
	n := 0
	for k, q := range qs {
		path := filepath.Join(dir, fmt.Sprintf("diff-%d.smt2", k))
		os.WriteFile(path, []byte("(set-logic QF_BV)\n"+q.Script), 0o644)
		for _, sv := range [][]string{{"z3-new", path}, {"cvc5", "--lang=smt2", path}} {
			out, err := exec.Command("timeout", append([]string{"60", sv[0]}, sv[1:]...)...).CombinedOutput()
			got := strings.TrimSpace(string(out))
			if err != nil && got == "" {
				bad = append(bad, fmt.Sprintf("second solver %s failed on %s: %v", sv[0], path, err))
				continue
			}
			if strings.Contains(got, "(error") || (got != "sat" && got != "unsat") {
				bad = append(bad, fmt.Sprintf("second solver %s inconclusive on %s: %q", sv[0], path, got))
				continue
			}
			if got != q.Expect {
				bad = append(bad, fmt.Sprintf("SOLVER DISAGREEMENT on %s: z3 4.8.12 said %s, %s says %s", path, q.Expect, sv[0], got))
			}
		}
		n++
	}
	return n, bad
}
