// symgo: solver-based checking of pingcap/advanced-statefulset by symbolic
// execution of go/ssa. See /verif/DESIGN.md.
package main

import (
	"encoding/json"
	"flag"
	"fmt"
	"os"
	"path/filepath"
	"runtime"
	"runtime/debug"
	"runtime/pprof"
	"sort"
	"strconv"
	"strings"
	"time"

	"golang.org/x/tools/go/packages"
	"golang.org/x/tools/go/ssa"
	"golang.org/x/tools/go/ssa/ssautil"

	"symgo/symgo"
)

const (
	modPath   = "github.com/pingcap/advanced-statefulset"
	pkgCtl    = modPath + "/pkg/controller/statefulset"
	pkgHelper = modPath + "/client/apis/apps/v1/helper"
	pkgAppsV1 = modPath + "/client/apis/apps/v1"
	pkgSym    = modPath + "/client/zz_verif/sym"
)

var (
	profPath    string
	devMaxPaths int64
	devDeadline time.Duration
	verifDir    = envOr("VERIF_DIR", "/verif")
	repoDir     = envOr("VERIF_REPO", "/repo")
)

func envOr(k, d string) string {
	if v := os.Getenv(k); v != "" {
		return v
	}
	return d
}

// overlayDirs maps harness source directories (under /verif/harness) to the
// package directories (under the repository) they are injected into.
var overlayDirs = map[string]string{
	"sym":         "client/zz_verif/sym",
	"helper":      "client/apis/apps/v1/helper",
	"statefulset": "pkg/controller/statefulset",
	"appsv1":      "client/apis/apps/v1",
}

func buildOverlay() (map[string][]byte, map[string]string) {
	content := map[string][]byte{}
	files := map[string]string{}
	for src, dst := range overlayDirs {
		dir := filepath.Join(verifDir, "harness", src)
		ents, err := os.ReadDir(dir)
		if err != nil {
			continue
		}
		for _, e := range ents {
			if e.IsDir() || !strings.HasSuffix(e.Name(), ".go") {
				continue
			}
			real := filepath.Join(dir, e.Name())
			b, err := os.ReadFile(real)
			if err != nil {
				fatal("read %s: %v", real, err)
			}
			virt := filepath.Join(repoDir, dst, e.Name())
			content[virt] = b
			files[virt] = real
		}
	}
	return content, files
}

func fatal(format string, a ...interface{}) {
	fmt.Fprintf(os.Stderr, "symgo: "+format+"\n", a...)
	os.Exit(3)
}

type loaded struct {
	prog *ssa.Program
	pkgs map[string]*ssa.Package
	took time.Duration
	srcs []string
}

func load(patterns ...string) *loaded {
	t0 := time.Now()
	overlay, _ := buildOverlay()
	cfg := &packages.Config{
		Mode:       packages.LoadAllSyntax,
		Dir:        repoDir,
		Overlay:    overlay,
		BuildFlags: []string{"-tags=verif"},
		Env:        append(os.Environ(), "GOFLAGS=-mod=mod", "GOPROXY=off", "GOSUMDB=off", "GOTOOLCHAIN=local"),
	}
	pkgs, err := packages.Load(cfg, patterns...)
	if err != nil {
		fatal("load: %v", err)
	}
	if packages.PrintErrors(pkgs) > 0 {
		fatal("the packages under test do not compile (with the harness overlay)")
	}
	prog, spkgs := ssautil.AllPackages(pkgs, ssa.InstantiateGenerics)
	prog.Build()
	gcp := 200
	if v, err := strconv.Atoi(os.Getenv("SYMGO_GOGC")); err == nil {
		gcp = v
	}
	debug.SetGCPercent(gcp)
	debug.SetMemoryLimit(16 << 30)
	if os.Getenv("SYMGO_MEM") != "" {
		var ms runtime.MemStats
		runtime.ReadMemStats(&ms)
		fmt.Fprintf(os.Stderr, "heap before dropping syntax: alloc=%dMB sys=%dMB\n", ms.HeapAlloc>>20, ms.Sys>>20)
		for _, p := range pkgs {
			p.Syntax, p.TypesInfo = nil, nil
		}
		runtime.GC()
		runtime.ReadMemStats(&ms)
		fmt.Fprintf(os.Stderr, "heap after GC: alloc=%dMB sys=%dMB\n", ms.HeapAlloc>>20, ms.Sys>>20)
	}
	l := &loaded{prog: prog, pkgs: map[string]*ssa.Package{}, took: time.Since(t0)}
	for k, p := range spkgs {
		if p != nil {
			l.pkgs[pkgs[k].PkgPath] = p
			for _, f := range pkgs[k].GoFiles {
				l.srcs = append(l.srcs, f)
			}
		}
	}
	return l
}

func main() {
	if len(os.Args) < 2 {
		fmt.Fprintln(os.Stderr, "usage: symgo check <id> quick|thorough | replay <file> | selftest | list")
		os.Exit(2)
	}
	switch os.Args[1] {
	case "check":
		fs := flag.NewFlagSet("check", flag.ExitOnError)
		workers := fs.Int("workers", runtime.NumCPU(), "worker count")
		verbose := fs.Bool("v", false, "verbose")
		only := fs.String("run", "", "only the run with this name")
		noNative := fs.Bool("no-native", false, "skip native validation (development only; the verdict is then inconclusive)")
		argsOverride := fs.String("args", "", "override harness args (development only)")
		fs.Int64Var(&devMaxPaths, "maxpaths", 0, "stop after this many paths (development only; verdict inconclusive)")
		fs.DurationVar(&devDeadline, "deadline", 0, "stop exploring after this long (verdict inconclusive)")
		prof := fs.String("cpuprofile", "", "write a CPU profile")
		fs.StringVar(&symgo.TwinLabel, "twin", "", "reachability twin: treat every assertion with this label as assert(false) (self-test)")
		fs.Parse(os.Args[2:])
		profPath = *prof
		if fs.NArg() < 2 {
			fatal("usage: symgo check [flags] <id> quick|thorough")
		}
		seed := int64(1)
		if s := os.Getenv("VERIF_SEED"); s != "" {
			if v, err := strconv.ParseInt(s, 10, 64); err == nil {
				seed = v
			}
		}
		if hp := os.Getenv("SYMGO_HEAPPROFILE"); hp != "" {
			go func() {
				for {
					time.Sleep(30 * time.Second)
					runtime.GC()
					var ms runtime.MemStats
					runtime.ReadMemStats(&ms)
					fmt.Fprintf(os.Stderr, "HEAP live=%dMB sys=%dMB\n", ms.HeapAlloc>>20, ms.Sys>>20)
					if f, err := os.Create(hp); err == nil {
						pprof.WriteHeapProfile(f)
						f.Close()
					}
				}
			}()
		}
		code := check(fs.Arg(0), fs.Arg(1), seed, *workers, *verbose, *only, *noNative, *argsOverride)
		pprof.StopCPUProfile()
		os.Exit(code)
	case "replay":
		if len(os.Args) < 3 {
			fatal("usage: symgo replay <file>")
		}
		os.Exit(replayFile(os.Args[2]))
	case "list":
		var ids []string
		for id := range specs {
			ids = append(ids, id)
		}
		sort.Strings(ids)
		for _, id := range ids {
			fmt.Println(id)
		}
	case "runs":
		// every registered run with its quick and thorough arguments (review aid)
		var ids []string
		for id := range specs {
			ids = append(ids, id)
		}
		sort.Strings(ids)
		for _, id := range ids {
			for _, r := range specs[id].Runs {
				fmt.Printf("%s\t%-45s quick=%v thorough=%v\n", id, r.Name, r.Quick, r.Thorough)
			}
		}
	case "labels":
		// assertion labels a spec requires to be reached (input of tools/twin.sh)
		if sp, ok := specs[os.Args[2]]; ok {
			seen := map[string]bool{}
			for _, r := range sp.Runs {
				for _, l := range r.Asserts {
					if !seen[r.Name+l] {
						seen[r.Name+l] = true
						fmt.Printf("%s\t%s\n", r.Name, l)
					}
				}
			}
		}
	case "selftest":
		os.Exit(selftest())
	default:
		fatal("unknown command %s", os.Args[1])
	}
}

func writeJSON(path string, v interface{}) {
	b, err := json.MarshalIndent(v, "", " ")
	if err != nil {
		fatal("marshal %s: %v", path, err)
	}
	os.MkdirAll(filepath.Dir(path), 0o755)
	if err := os.WriteFile(path, append(b, '\n'), 0o644); err != nil {
		fatal("write %s: %v", path, err)
	}
}

var _ = symgo.Explore
