package symgo

// Structural model of encoding/json for API objects.
//
// json.Marshal of an API object (a struct that embeds TypeMeta) does not produce text: it
// returns a one-element "byte slice" holding a jsonBlob (the static type and a deep copy of the
// value). json.Unmarshal of such a blob into another struct type transcodes it field by field
// the way decode(encode(x)) does for encoding/json:
//
//   - fields are matched by their JSON names (tags; exact match first, then case-insensitively),
//     embedded structs without a name are flattened, "-" fields are skipped;
//   - a source field without a counterpart is dropped, a target field without a source stays zero;
//   - omitempty drops nil pointers/interfaces and empty slices/maps (the target gets nil);
//     for scalars omission and the zero value decode to the same thing;
//   - without omitempty a nil slice/map is null (target nil) and an empty one stays empty;
//   - pointers are re-allocated, slices and maps rebuilt, scalars copied (symbolic leaves stay
//     symbolic: no text is ever produced);
//   - a type with its own MarshalJSON/UnmarshalJSON must be the same type on both sides and is
//     deep-copied (ASSUMPTION, listed in the evidence: such a type round-trips through its own
//     codec; true for metav1.Time at whole seconds, Quantity up to canonical form, IntOrString,
//     RawExtension, FieldsV1, Duration).
//
// Any other use of the blob (len, indexing, printing, a real decoder) is an engine trap, i.e.
// the run is inconclusive, never a verdict.

import (
	"go/types"
	"reflect"
	"strings"
)

type jsonBlob struct {
	t types.Type
	v value
}

// isAPIObject: a struct (or pointer to one) that embeds TypeMeta.
func isAPIObject(t types.Type) bool {
	if p, ok := t.Underlying().(*types.Pointer); ok {
		t = p.Elem()
	}
	st, ok := t.Underlying().(*types.Struct)
	if !ok {
		return false
	}
	for k := 0; k < st.NumFields(); k++ {
		f := st.Field(k)
		if f.Embedded() && f.Name() == "TypeMeta" {
			return true
		}
	}
	return false
}

func hasMethod(t types.Type, name string) bool {
	if _, ok := t.Underlying().(*types.Interface); ok {
		return false
	}
	if types.NewMethodSet(t).Lookup(nil, name) != nil {
		return true
	}
	if _, ok := t.(*types.Pointer); !ok {
		return types.NewMethodSet(types.NewPointer(t)).Lookup(nil, name) != nil
	}
	return false
}

type jsonField struct {
	name      string
	path      []int
	t         types.Type
	omitempty bool
}

// jsonFields lists the JSON-visible fields of a struct type, flattening embedded structs.
func jsonFields(st *types.Struct, prefix []int, out *[]jsonField) {
	for k := 0; k < st.NumFields(); k++ {
		f := st.Field(k)
		tag := reflect.StructTag(st.Tag(k)).Get("json")
		if tag == "-" {
			continue
		}
		name := ""
		omit := false
		if tag != "" {
			parts := strings.Split(tag, ",")
			name = parts[0]
			for _, p := range parts[1:] {
				if p == "omitempty" {
					omit = true
				}
			}
		}
		path := append(append([]int(nil), prefix...), k)
		if f.Embedded() && name == "" {
			if est, ok := f.Type().Underlying().(*types.Struct); ok && !hasMethod(f.Type(), "MarshalJSON") {
				jsonFields(est, path, out)
				continue
			}
			if _, ok := f.Type().Underlying().(*types.Pointer); ok {
				panic(engineTrap{msg: "json model: embedded pointer field " + f.Name()})
			}
		}
		if !f.Exported() {
			continue
		}
		if name == "" {
			name = f.Name()
		}
		*out = append(*out, jsonField{name: name, path: path, t: f.Type(), omitempty: omit})
	}
}

func fieldAt(s structure, path []int) *value {
	for _, k := range path[:len(path)-1] {
		s = s[k].(structure)
	}
	return &s[path[len(path)-1]]
}

func sameBasicFamily(a, b *types.Basic) bool {
	fam := func(x *types.Basic) int {
		switch {
		case x.Info()&types.IsBoolean != 0:
			return 1
		case x.Info()&types.IsString != 0:
			return 2
		case x.Info()&types.IsInteger != 0:
			return 3
		case x.Info()&types.IsFloat != 0:
			return 4
		}
		return 0
	}
	return fam(a) != 0 && fam(a) == fam(b)
}

// jsonTranscode returns what decoding the JSON encoding of (st, sv) into a zero value of dt yields.
func (i *interpreter) jsonTranscode(st types.Type, sv value, dt types.Type) value {
	if hasMethod(st, "MarshalJSON") || hasMethod(dt, "UnmarshalJSON") {
		if _, isPtr := st.Underlying().(*types.Pointer); !isPtr {
			if !types.Identical(st, dt) {
				panic(engineTrap{msg: "json model: custom codec between different types " + st.String() + " and " + dt.String()})
			}
			return i.deepCopyValue(st, sv)
		}
	}
	switch su := st.Underlying().(type) {
	case *types.Basic:
		du, ok := dt.Underlying().(*types.Basic)
		if !ok || !sameBasicFamily(su, du) {
			panic(engineTrap{msg: "json model: " + st.String() + " decoded into " + dt.String()})
		}
		if su.Kind() != du.Kind() {
			panic(engineTrap{msg: "json model: scalar kinds differ: " + st.String() + " vs " + dt.String()})
		}
		return sv
	case *types.Pointer:
		p := sv.(*value)
		if du, ok := dt.Underlying().(*types.Pointer); ok {
			if p == nil {
				return (*value)(nil)
			}
			c := i.jsonTranscode(su.Elem(), *p, du.Elem())
			return &c
		}
		if p == nil {
			return zero(dt) // null leaves the target untouched
		}
		return i.jsonTranscode(su.Elem(), *p, dt)
	case *types.Struct:
		if dp, ok := dt.Underlying().(*types.Pointer); ok {
			c := i.jsonTranscode(st, sv, dp.Elem())
			return &c
		}
		du, ok := dt.Underlying().(*types.Struct)
		if !ok {
			panic(engineTrap{msg: "json model: object decoded into " + dt.String()})
		}
		var sf, df []jsonField
		jsonFields(su, nil, &sf)
		jsonFields(du, nil, &df)
		out := zero(dt).(structure)
		src := sv.(structure)
		for _, f := range sf {
			v := *fieldAt(src, f.path)
			if f.omitempty {
				switch f.t.Underlying().(type) {
				case *types.Pointer, *types.Slice, *types.Map, *types.Interface:
					if isEmptyJSON(v) {
						continue
					}
				}
			}
			var target *jsonField
			for k := range df {
				if df[k].name == f.name {
					target = &df[k]
					break
				}
			}
			if target == nil {
				for k := range df {
					if strings.EqualFold(df[k].name, f.name) {
						target = &df[k]
						break
					}
				}
			}
			if target == nil {
				continue // unknown fields are ignored by the decoder
			}
			*fieldAt(out, target.path) = i.jsonTranscode(f.t, v, target.t)
		}
		return out
	case *types.Slice:
		xs := sv.([]value)
		du, ok := dt.Underlying().(*types.Slice)
		if !ok {
			panic(engineTrap{msg: "json model: array decoded into " + dt.String()})
		}
		if xs == nil {
			return []value(nil)
		}
		if bk, ok := su.Elem().Underlying().(*types.Basic); ok && bk.Kind() == types.Uint8 {
			return append([]value{}, xs...) // base64 text and back
		}
		out := make([]value, len(xs))
		for k := range xs {
			out[k] = i.jsonTranscode(su.Elem(), xs[k], du.Elem())
		}
		return out
	case *types.Array:
		xs := sv.(array)
		du, ok := dt.Underlying().(*types.Array)
		if !ok || du.Len() != su.Len() {
			panic(engineTrap{msg: "json model: array decoded into " + dt.String()})
		}
		out := make(array, len(xs))
		for k := range xs {
			out[k] = i.jsonTranscode(su.Elem(), xs[k], du.Elem())
		}
		return out
	case *types.Map:
		m := sv.(*omap)
		du, ok := dt.Underlying().(*types.Map)
		if !ok {
			panic(engineTrap{msg: "json model: object decoded into " + dt.String()})
		}
		if m == nil {
			return (*omap)(nil)
		}
		if kb, ok := su.Key().Underlying().(*types.Basic); !ok || kb.Info()&types.IsString == 0 {
			panic(engineTrap{msg: "json model: non-string map key in " + st.String()})
		}
		out := newOmap()
		for k := range m.keys {
			out.appendEntry(m.keys[k], i.jsonTranscode(su.Elem(), m.vals[k], du.Elem()))
		}
		return out
	case *types.Interface:
		it := sv.(iface)
		if it.t == nil {
			return zero(dt)
		}
		panic(engineTrap{msg: "json model: non-nil interface value of type " + it.t.String()})
	}
	panic(engineTrap{msg: "json model: unsupported type " + st.String()})
}
