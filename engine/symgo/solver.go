package symgo

// Driver for one incremental `z3 -in` process. All replies are parsed; any
// `(error`, `unknown` or unexpected line makes the run inconclusive
// (solverTrouble panic).

import (
	"bufio"
	"fmt"
	"io"
	"os"
	"os/exec"
	"strconv"
	"strings"
	"sync/atomic"
	"time"
)

type solverTrouble struct{ msg string }

type solver struct {
	cmd      *exec.Cmd
	in       io.WriteCloser
	out      *bufio.Reader
	epoch    int
	depth    int // number of pushes
	declared map[string]bool
	Queries  int
	Time     time.Duration
	logf     *os.File // optional transcript
	timeout  int      // ms per query
}

var solverEpoch int32

func newSolver(bin string, timeoutMs int, epoch int) *solver {
	args := []string{"-in"}
	cmd := exec.Command(bin, args...)
	in, _ := cmd.StdinPipe()
	outp, _ := cmd.StdoutPipe()
	cmd.Stderr = os.Stderr
	if err := cmd.Start(); err != nil {
		panic(solverTrouble{"cannot start solver: " + err.Error()})
	}
	s := &solver{cmd: cmd, in: in, out: bufio.NewReaderSize(outp, 1<<16), declared: map[string]bool{}, epoch: epoch, timeout: timeoutMs}
	s.send("(set-option :global-decls true)\n")
	if timeoutMs > 0 {
		s.send(fmt.Sprintf("(set-option :timeout %d)\n", timeoutMs))
	}
	s.send("(set-logic QF_BV)\n")
	return s
}

func (s *solver) close() {
	if s == nil || s.cmd == nil {
		return
	}
	s.in.Close()
	s.cmd.Process.Kill()
	s.cmd.Wait()
	s.cmd = nil
}

func (s *solver) send(txt string) {
	if s.logf != nil {
		s.logf.WriteString(txt)
	}
	if _, err := io.WriteString(s.in, txt); err != nil {
		panic(solverTrouble{"write to solver failed: " + err.Error()})
	}
}

func (s *solver) readLine() string {
	l, err := s.out.ReadString('\n')
	if err != nil {
		panic(solverTrouble{"solver closed its output: " + err.Error()})
	}
	l = strings.TrimSpace(l)
	if s.logf != nil {
		s.logf.WriteString("; <- " + l + "\n")
	}
	if strings.HasPrefix(l, "(error") {
		panic(solverTrouble{"solver error: " + l})
	}
	return l
}

func (s *solver) declare(v *term) {
	if s.declared[v.name] {
		return
	}
	s.declared[v.name] = true
	s.send(fmt.Sprintf("(declare-const %s %s)\n", v.name, sortName(v.bits)))
}

func (s *solver) prep(t *term) string {
	var vs []*term
	t.vars(map[int]bool{}, &vs)
	for _, v := range vs {
		s.declare(v)
	}
	var b strings.Builder
	t.defs(s.epoch, &b)
	if b.Len() > 0 {
		s.send(b.String())
	}
	return t.ref(s.epoch)
}

func (s *solver) push() {
	s.send("(push)\n")
	s.depth++
}

func (s *solver) popTo(depth int) {
	if depth < s.depth {
		s.send(fmt.Sprintf("(pop %d)\n", s.depth-depth))
		s.depth = depth
	}
}

func (s *solver) assert(t *term) {
	s.send("(assert " + s.prep(t) + ")\n")
}

// check returns true for sat, false for unsat.
// killEvery (development, SYMGO_KILLSOLVER=n): every n-th query of the process first kills
// its solver, to exercise the recovery path.
var killEvery, killCount int64

func init() {
	if v, err := strconv.ParseInt(os.Getenv("SYMGO_KILLSOLVER"), 10, 64); err == nil {
		killEvery = v
	}
}

func (s *solver) check() bool {
	s.Queries++
	if killEvery > 0 && atomic.AddInt64(&killCount, 1)%killEvery == 0 {
		s.cmd.Process.Kill()
	}
	t0 := time.Now()
	s.send("(check-sat)\n")
	l := s.readLine()
	s.Time += time.Since(t0)
	switch l {
	case "sat":
		return true
	case "unsat":
		return false
	}
	panic(solverTrouble{"solver answered " + strconv.Quote(l)})
}

// checkWith asks whether the current stack plus extra is satisfiable.
func (s *solver) checkWith(extra *term) bool {
	ref := s.prep(extra)
	s.send("(push)\n(assert " + ref + ")\n")
	r := s.check()
	s.send("(pop)\n")
	return r
}

// checkWithModel is checkWith that also returns values of vars when sat.
func (s *solver) checkWithModel(extra *term, vars []*term) (bool, map[string]uint64) {
	ref := ""
	if extra != nil {
		ref = s.prep(extra)
	}
	for _, v := range vars {
		s.declare(v)
	}
	s.send("(push)\n")
	if extra != nil {
		s.send("(assert " + ref + ")\n")
	}
	r := s.check()
	var m map[string]uint64
	if r {
		m = s.getValues(vars)
	}
	s.send("(pop)\n")
	return r, m
}

func (s *solver) getValues(vars []*term) map[string]uint64 {
	m := map[string]uint64{}
	if len(vars) == 0 {
		return m
	}
	var b strings.Builder
	b.WriteString("(get-value (")
	for _, v := range vars {
		b.WriteString(v.name)
		b.WriteByte(' ')
	}
	b.WriteString("))\n")
	s.send(b.String())
	// reply: ((name val)\n (name val) ...)
	depth := 0
	var txt strings.Builder
	for {
		l := s.readLine()
		txt.WriteString(l)
		txt.WriteByte(' ')
		depth += strings.Count(l, "(") - strings.Count(l, ")")
		if depth <= 0 {
			break
		}
	}
	toks := strings.Fields(strings.NewReplacer("(", " ", ")", " ").Replace(txt.String()))
	for k := 0; k+1 < len(toks); k += 2 {
		m[toks[k]] = parseSmtValue(toks[k+1])
	}
	return m
}

func parseSmtValue(s string) uint64 {
	switch {
	case s == "true":
		return 1
	case s == "false":
		return 0
	case strings.HasPrefix(s, "#x"):
		v, err := strconv.ParseUint(s[2:], 16, 64)
		if err != nil {
			panic(solverTrouble{"bad value " + s})
		}
		return v
	case strings.HasPrefix(s, "#b"):
		v, err := strconv.ParseUint(s[2:], 2, 64)
		if err != nil {
			panic(solverTrouble{"bad value " + s})
		}
		return v
	}
	panic(solverTrouble{"bad value " + s})
}
