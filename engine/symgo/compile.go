package symgo

// Pre-resolution of SSA operands to register indices ("compiled" functions).
// The SSA program itself is shared and read-only; compiled functions are
// immutable after construction and shared between workers.

import (
	"fmt"
	"go/types"
	"sync"

	"golang.org/x/tools/go/ssa"
)

type globalRef struct{ g *ssa.Global }
type freshZero struct{ t types.Type }

// operand: >=0 register index; <0 constant pool index ^op.
type operand = int32

const noOperand operand = -1 << 30

type cinstr struct {
	ins     ssa.Instruction
	dst     int32 // register for the result, or -1
	x, y, z operand
	args    []operand
}

type cphi struct {
	dst   int32
	edges []operand
}

type cblock struct {
	b      *ssa.BasicBlock
	index  int
	phis   []cphi
	instrs []cinstr
	// speculation info (if-conversion), computed lazily
	specOnce  sync.Once
	specOK    bool
	specStore int
}

type cfunc struct {
	fn        *ssa.Function
	name      string
	nregs     int
	consts    []value
	blocks    []*cblock
	nparams   int
	nfree     int
	localRegs []int32 // registers of fn.Locals (stack Allocs)
	localTyps []types.Type
	instrs    int
	// if-conversion analysis (lazy)
	pdomOnce sync.Once
	pdom     []int
	regionMu sync.Mutex
	regions  map[int]*regionInfo
}

var (
	cfuncMu  sync.Mutex
	cfuncTab = map[*ssa.Function]*cfunc{}
)

func compiled(fn *ssa.Function) *cfunc {
	cfuncMu.Lock()
	cf := cfuncTab[fn]
	cfuncMu.Unlock()
	if cf != nil {
		return cf
	}
	cf = compile(fn)
	cfuncMu.Lock()
	if old := cfuncTab[fn]; old != nil {
		cf = old
	} else {
		cfuncTab[fn] = cf
	}
	cfuncMu.Unlock()
	return cf
}

func mustDeref(t types.Type) types.Type {
	if p, ok := t.Underlying().(*types.Pointer); ok {
		return p.Elem()
	}
	panic("mustDeref: not a pointer: " + t.String())
}

func compile(fn *ssa.Function) *cfunc {
	cf := &cfunc{fn: fn, name: fn.String()}
	regs := map[ssa.Value]int32{}
	next := int32(0)
	for _, p := range fn.Params {
		regs[p] = next
		next++
	}
	cf.nparams = len(fn.Params)
	for _, fv := range fn.FreeVars {
		regs[fv] = next
		next++
	}
	cf.nfree = len(fn.FreeVars)
	for _, b := range fn.Blocks {
		for _, ins := range b.Instrs {
			if v, ok := ins.(ssa.Value); ok {
				regs[v] = next
				next++
			}
		}
	}
	for _, l := range fn.Locals {
		cf.localRegs = append(cf.localRegs, regs[l])
		cf.localTyps = append(cf.localTyps, mustDeref(l.Type()))
	}
	cf.nregs = int(next)
	constIdx := map[ssa.Value]operand{}
	op := func(v ssa.Value) operand {
		if v == nil || isNilValue(v) {
			return noOperand
		}
		if r, ok := regs[v]; ok {
			return r
		}
		if c, ok := constIdx[v]; ok {
			return c
		}
		var cv value
		switch v := v.(type) {
		case *ssa.Const:
			if v.Value == nil {
				switch v.Type().Underlying().(type) {
				case *types.Struct, *types.Array:
					cv = freshZero{v.Type()}
				default:
					if _, ok := v.Type().(*types.TypeParam); ok {
						panic("compile: constant of type-parameter type in " + fn.String())
					}
					cv = zero(v.Type())
				}
			} else {
				cv = constValue(v)
			}
		case *ssa.Function:
			cv = v
		case *ssa.Builtin:
			cv = v
		case *ssa.Global:
			cv = globalRef{v}
		default:
			panic(fmt.Sprintf("compile %s: no register for %T %s", fn, v, v.Name()))
		}
		cf.consts = append(cf.consts, cv)
		c := ^operand(len(cf.consts) - 1)
		constIdx[v] = c
		return c
	}
	ops := func(vs []ssa.Value) []operand {
		out := make([]operand, len(vs))
		for k, v := range vs {
			out[k] = op(v)
		}
		return out
	}
	for bi, b := range fn.Blocks {
		cb := &cblock{b: b, index: bi}
		for _, ins := range b.Instrs {
			cf.instrs++
			if phi, ok := ins.(*ssa.Phi); ok {
				cb.phis = append(cb.phis, cphi{dst: regs[phi], edges: ops(phi.Edges)})
				continue
			}
			ci := cinstr{ins: ins, dst: -1, x: noOperand, y: noOperand, z: noOperand}
			if v, ok := ins.(ssa.Value); ok {
				ci.dst = regs[v]
			}
			switch ins := ins.(type) {
			case *ssa.DebugRef:
				continue
			case *ssa.UnOp:
				ci.x = op(ins.X)
			case *ssa.BinOp:
				ci.x, ci.y = op(ins.X), op(ins.Y)
			case *ssa.Call:
				ci.x = op(ins.Call.Value)
				ci.args = ops(ins.Call.Args)
			case *ssa.Defer:
				ci.x = op(ins.Call.Value)
				ci.args = ops(ins.Call.Args)
				if ins.DeferStack != nil {
					ci.y = op(ins.DeferStack)
				}
			case *ssa.Go:
				ci.x = op(ins.Call.Value)
				ci.args = ops(ins.Call.Args)
			case *ssa.ChangeInterface:
				ci.x = op(ins.X)
			case *ssa.ChangeType:
				ci.x = op(ins.X)
			case *ssa.Convert:
				ci.x = op(ins.X)
			case *ssa.MultiConvert:
				ci.x = op(ins.X)
			case *ssa.SliceToArrayPointer:
				ci.x = op(ins.X)
			case *ssa.MakeInterface:
				ci.x = op(ins.X)
			case *ssa.Extract:
				ci.x = op(ins.Tuple)
			case *ssa.Slice:
				ci.x = op(ins.X)
				ci.args = []operand{op(ins.Low), op(ins.High), op(ins.Max)}
			case *ssa.Return:
				ci.args = ops(ins.Results)
			case *ssa.RunDefers:
			case *ssa.Panic:
				ci.x = op(ins.X)
			case *ssa.Send:
				ci.x, ci.y = op(ins.Chan), op(ins.X)
			case *ssa.Store:
				ci.x, ci.y = op(ins.Addr), op(ins.Val)
			case *ssa.If:
				ci.x = op(ins.Cond)
			case *ssa.Jump:
			case *ssa.MakeChan:
				ci.x = op(ins.Size)
			case *ssa.Alloc:
			case *ssa.MakeSlice:
				ci.x, ci.y = op(ins.Len), op(ins.Cap)
			case *ssa.MakeMap:
				if ins.Reserve != nil {
					ci.x = op(ins.Reserve)
				}
			case *ssa.Range:
				ci.x = op(ins.X)
			case *ssa.Next:
				ci.x = op(ins.Iter)
			case *ssa.FieldAddr:
				ci.x = op(ins.X)
			case *ssa.Field:
				ci.x = op(ins.X)
			case *ssa.IndexAddr:
				ci.x, ci.y = op(ins.X), op(ins.Index)
			case *ssa.Index:
				ci.x, ci.y = op(ins.X), op(ins.Index)
			case *ssa.Lookup:
				ci.x, ci.y = op(ins.X), op(ins.Index)
			case *ssa.MapUpdate:
				ci.x, ci.y, ci.z = op(ins.Map), op(ins.Key), op(ins.Value)
			case *ssa.TypeAssert:
				ci.x = op(ins.X)
			case *ssa.MakeClosure:
				ci.x = op(ins.Fn)
				ci.args = ops(ins.Bindings)
			case *ssa.Select:
				for _, st := range ins.States {
					ci.args = append(ci.args, op(st.Chan), op(st.Send))
				}
			default:
				panic(fmt.Sprintf("compile: unexpected instruction %T", ins))
			}
			cb.instrs = append(cb.instrs, ci)
		}
		cf.blocks = append(cf.blocks, cb)
	}
	return cf
}

func isNilValue(v ssa.Value) bool {
	// guards against typed nil interface values wrapping nil pointers
	switch v := v.(type) {
	case *ssa.Const:
		return v == nil
	case *ssa.Function:
		return v == nil
	case *ssa.Global:
		return v == nil
	}
	return false
}
