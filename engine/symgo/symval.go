package symgo

// Symbolic scalar values, ordered maps and structural equality.

import (
	"encoding/json"
	"fmt"
	"go/types"
)

// symInt is a symbolic integer of Go basic kind k (t.bits wide).
type symInt struct {
	t *term
	k types.BasicKind
}

type symBool struct{ t *term }

// symStr is a finite-domain string: table[idx], idx a bit-vector of 8 bits
// constrained (by the creator) to be < len(table).
type symStr struct {
	idx   *term
	table []string
}

func isSym(v value) bool {
	switch v.(type) {
	case symInt, symBool, symStr:
		return true
	}
	return false
}

func kindBits(k types.BasicKind) (bits int, signed bool) {
	switch k {
	case types.Int, types.Int64, types.UntypedInt:
		return 64, true
	case types.Int32, types.UntypedRune:
		return 32, true
	case types.Int16:
		return 16, true
	case types.Int8:
		return 8, true
	case types.Uint, types.Uint64, types.Uintptr:
		return 64, false
	case types.Uint32:
		return 32, false
	case types.Uint16:
		return 16, false
	case types.Uint8:
		return 8, false
	}
	panic(fmt.Sprintf("kindBits: not an integer kind %v", k))
}

func basicKindOf(t types.Type) types.BasicKind {
	if b, ok := t.Underlying().(*types.Basic); ok {
		return b.Kind()
	}
	panic("basicKindOf: " + t.String())
}

// kindOfValue returns the basic kind of a concrete integer value.
func kindOfValue(v value) (types.BasicKind, bool) {
	switch v.(type) {
	case int:
		return types.Int, true
	case int8:
		return types.Int8, true
	case int16:
		return types.Int16, true
	case int32:
		return types.Int32, true
	case int64:
		return types.Int64, true
	case uint:
		return types.Uint, true
	case uint8:
		return types.Uint8, true
	case uint16:
		return types.Uint16, true
	case uint32:
		return types.Uint32, true
	case uint64:
		return types.Uint64, true
	case uintptr:
		return types.Uintptr, true
	}
	return 0, false
}

// mkInt builds the concrete interpreter value of kind k from raw bits.
func mkInt(k types.BasicKind, raw uint64) value {
	switch k {
	case types.Int, types.UntypedInt:
		return int(int64(raw))
	case types.Int8:
		return int8(raw)
	case types.Int16:
		return int16(raw)
	case types.Int32, types.UntypedRune:
		return int32(raw)
	case types.Int64:
		return int64(raw)
	case types.Uint:
		return uint(raw)
	case types.Uint8:
		return uint8(raw)
	case types.Uint16:
		return uint16(raw)
	case types.Uint32:
		return uint32(raw)
	case types.Uint64:
		return raw
	case types.Uintptr:
		return uintptr(raw)
	}
	panic(fmt.Sprintf("mkInt: kind %v", k))
}

// intTerm converts an integer value (concrete or symbolic) to a term.
func (s *symCtx) intTerm(v value) (*term, types.BasicKind) {
	switch v := v.(type) {
	case symInt:
		return v.t, v.k
	}
	k, ok := kindOfValue(v)
	if !ok {
		panic(fmt.Sprintf("intTerm: %T", v))
	}
	b, _ := kindBits(k)
	return s.tt.bv(asUint64Any(v), b), k
}

func asUint64Any(v value) uint64 {
	switch v := v.(type) {
	case int:
		return uint64(v)
	case int8:
		return uint64(v)
	case int16:
		return uint64(v)
	case int32:
		return uint64(v)
	case int64:
		return uint64(v)
	case uint:
		return uint64(v)
	case uint8:
		return uint64(v)
	case uint16:
		return uint64(v)
	case uint32:
		return uint64(v)
	case uint64:
		return v
	case uintptr:
		return uint64(v)
	}
	panic(fmt.Sprintf("asUint64Any: %T", v))
}

func (s *symCtx) boolTerm(v value) *term {
	switch v := v.(type) {
	case bool:
		return s.tt.boolc(v)
	case symBool:
		return v.t
	}
	panic(fmt.Sprintf("boolTerm: %T", v))
}

// wrapBool turns a term into the cheapest value.
func wrapBool(t *term) value {
	if t.isConst() {
		return t.val != 0
	}
	return symBool{t}
}

func wrapInt(t *term, k types.BasicKind) value {
	if t.isConst() {
		return mkInt(k, t.val)
	}
	return symInt{t, k}
}

// strEq builds the condition "x == y" for strings of which at least one is symbolic.
func (s *symCtx) strEq(x, y value) *term {
	tt := s.tt
	sx, okx := x.(symStr)
	sy, oky := y.(symStr)
	switch {
	case okx && oky:
		var alts []*term
		for i, a := range sx.table {
			for j, b := range sy.table {
				if a == b {
					alts = append(alts, tt.and(tt.eq(sx.idx, tt.bv(uint64(i), 8)), tt.eq(sy.idx, tt.bv(uint64(j), 8))))
				}
			}
		}
		return tt.or(alts...)
	case okx:
		var alts []*term
		for i, a := range sx.table {
			if a == y.(string) {
				alts = append(alts, tt.eq(sx.idx, tt.bv(uint64(i), 8)))
			}
		}
		return tt.or(alts...)
	case oky:
		return s.strEq(y, x)
	}
	panic("strEq: no symbolic operand")
}

// ---- ordered maps

// omap is the interpreter's map: insertion ordered, keys pairwise distinct
// under the path condition. A nil *omap is the nil map.
type omap struct {
	keys    []value
	vals    []value
	idx     map[value]int // concrete basic keys -> position
	symKeys int
	frozen  bool
}

func simpleKey(k value) bool {
	switch k.(type) {
	case string, bool, int, int8, int16, int32, int64, uint, uint8, uint16, uint32, uint64, uintptr, float32, float64:
		return true
	}
	return false
}

func newOmap() *omap { return &omap{idx: map[value]int{}} }

func (m *omap) length() int {
	if m == nil {
		return 0
	}
	return len(m.keys)
}

func (m *omap) appendEntry(k, v value) {
	if simpleKey(k) {
		m.idx[k] = len(m.keys)
	} else if isSym(k) {
		m.symKeys++
	}
	m.keys = append(m.keys, k)
	m.vals = append(m.vals, v)
}

func (m *omap) removeAt(j int) {
	k := m.keys[j]
	if isSym(k) {
		m.symKeys--
	}
	m.keys = append(m.keys[:j:j], m.keys[j+1:]...)
	m.vals = append(m.vals[:j:j], m.vals[j+1:]...)
	if simpleKey(k) {
		delete(m.idx, k)
	}
	for i := j; i < len(m.keys); i++ {
		if simpleKey(m.keys[i]) {
			m.idx[m.keys[i]] = i
		}
	}
}

// find returns the position of key k, forking on comparisons with symbolic
// operands. kt is the static key type.
func (i *interpreter) omapFind(m *omap, kt types.Type, k value) int {
	if m == nil {
		return -1
	}
	if simpleKey(k) {
		if j, ok := m.idx[k]; ok {
			return j
		}
		if m.symKeys == 0 {
			return -1
		}
		for j, kk := range m.keys {
			if isSym(kk) && i.truth(i.eqv(kt, kk, k)) {
				return j
			}
		}
		return -1
	}
	for j, kk := range m.keys {
		if i.truth(i.eqv(kt, kk, k)) {
			return j
		}
	}
	return -1
}

type omapIter struct {
	keys, vals []value
	j          int
}

func (it *omapIter) next() tuple {
	if it.j >= len(it.keys) {
		return tuple{false, nil, nil}
	}
	k, v := it.keys[it.j], it.vals[it.j]
	it.j++
	return tuple{true, k, v}
}

// ---- equality

func sameType(x, y types.Type) bool {
	if x == nil {
		return y == nil
	}
	return y != nil && types.Identical(x, y)
}

// eqv returns x == y for type t as bool or symBool.
func (i *interpreter) eqv(t types.Type, x, y value) value {
	if sx, ok := x.(symSlotsStr); ok {
		return i.slotsStrEq(sx, y)
	}
	if sy, ok := y.(symSlotsStr); ok {
		return i.slotsStrEq(sy, x)
	}
	if isSym(x) || isSym(y) {
		switch x.(type) {
		case symStr:
			return wrapBool(i.sym.strEq(x, y))
		case symBool:
			return wrapBool(i.sym.tt.eq(i.sym.boolTerm(x), i.sym.boolTerm(y)))
		case symInt:
			a, _ := i.sym.intTerm(x)
			b, _ := i.sym.intTerm(y)
			return wrapBool(i.sym.tt.eq(a, b))
		}
		switch y.(type) {
		case symStr:
			return wrapBool(i.sym.strEq(x, y))
		case symBool:
			return wrapBool(i.sym.tt.eq(i.sym.boolTerm(x), i.sym.boolTerm(y)))
		case symInt:
			a, _ := i.sym.intTerm(x)
			b, _ := i.sym.intTerm(y)
			return wrapBool(i.sym.tt.eq(a, b))
		}
	}
	switch x := x.(type) {
	case bool:
		return x == y.(bool)
	case int:
		return x == y.(int)
	case int8:
		return x == y.(int8)
	case int16:
		return x == y.(int16)
	case int32:
		return x == y.(int32)
	case int64:
		return x == y.(int64)
	case uint:
		return x == y.(uint)
	case uint8:
		return x == y.(uint8)
	case uint16:
		return x == y.(uint16)
	case uint32:
		return x == y.(uint32)
	case uint64:
		return x == y.(uint64)
	case uintptr:
		return x == y.(uintptr)
	case float32:
		return x == y.(float32)
	case float64:
		return x == y.(float64)
	case complex64:
		return x == y.(complex64)
	case complex128:
		return x == y.(complex128)
	case string:
		return x == y.(string)
	case *value:
		return x == y.(*value)
	case *vchan:
		return x == y.(*vchan)
	case opaque:
		return x.v == y.(opaque).v
	case structure:
		y := y.(structure)
		tStruct := t.Underlying().(*types.Struct)
		var acc *term
		for k, n := 0, tStruct.NumFields(); k < n; k++ {
			f := tStruct.Field(k)
			if f.Name() == "_" {
				continue
			}
			switch r := i.eqv(f.Type(), x[k], y[k]).(type) {
			case bool:
				if !r {
					return false
				}
			case symBool:
				if acc == nil {
					acc = r.t
				} else {
					acc = i.sym.tt.and(acc, r.t)
				}
			}
		}
		if acc != nil {
			return wrapBool(acc)
		}
		return true
	case array:
		y := y.(array)
		tElt := t.Underlying().(*types.Array).Elem()
		var acc *term
		for k := range x {
			switch r := i.eqv(tElt, x[k], y[k]).(type) {
			case bool:
				if !r {
					return false
				}
			case symBool:
				if acc == nil {
					acc = r.t
				} else {
					acc = i.sym.tt.and(acc, r.t)
				}
			}
		}
		if acc != nil {
			return wrapBool(acc)
		}
		return true
	case iface:
		y := y.(iface)
		if !sameType(x.t, y.t) {
			return false
		}
		if x.t == nil {
			return true
		}
		return i.eqv(x.t, x.v, y.v)
	}
	// map, func and slice are only comparable with nil, handled by eqnil;
	// reaching here means a comparison of uncomparable dynamic types in
	// interfaces, which panics in Go.
	panic(targetPanic{i.runtimeError(fmt.Sprintf("runtime error: comparing uncomparable type %s", t))})
}

// truth converts a bool/symBool to a Go bool, forking when symbolic.
func (i *interpreter) truth(v value) bool {
	switch v := v.(type) {
	case bool:
		return v
	case symBool:
		return i.sym.decide(v.t)
	}
	panic(fmt.Sprintf("truth: %T", v))
}

// concreteInt returns the Go int64 of an integer value, concretising if symbolic.
func (i *interpreter) concreteInt(v value) value {
	if s, ok := v.(symInt); ok {
		raw := i.sym.concretise(s.t)
		return mkInt(s.k, raw)
	}
	return v
}

func (i *interpreter) concreteStr(v value) value {
	if s, ok := v.(symStr); ok {
		raw := i.sym.concretise(s.idx)
		if int(raw) >= len(s.table) {
			panic(pathAbort{"symStr index outside its table"})
		}
		return s.table[raw]
	}
	return v
}

// concrete makes a scalar value concrete (forking over its feasible values).
func (i *interpreter) concrete(v value) value {
	switch v := v.(type) {
	case symInt:
		return i.concreteInt(v)
	case symStr:
		return i.concreteStr(v)
	case symBool:
		return i.sym.decide(v.t)
	}
	return v
}

// deepConcrete concretises every symbolic scalar reachable in a value that is
// about to be handed to native code (format arguments and the like). It does
// not follow pointers.
func (i *interpreter) deepConcrete(v value) value {
	switch x := v.(type) {
	case symInt, symStr, symBool:
		return i.concrete(v)
	case iface:
		return iface{x.t, i.deepConcrete(x.v)}
	case structure:
		out := make(structure, len(x))
		for k := range x {
			out[k] = i.deepConcrete(x[k])
		}
		return out
	case array:
		out := make(array, len(x))
		for k := range x {
			out[k] = i.deepConcrete(x[k])
		}
		return out
	case []value:
		for k := range x {
			x[k] = i.deepConcrete(x[k])
		}
		return x
	}
	return v
}

// renderUnder prints a note value with symbolic parts evaluated under model m.
func renderUnder(v value, m map[string]uint64, memo map[int]uint64) string {
	switch x := v.(type) {
	case symInt:
		raw := x.t.eval(m, memo)
		return fmt.Sprint(mkInt(x.k, raw))
	case symBool:
		return fmt.Sprint(x.t.eval(m, memo) != 0)
	case symStr:
		raw := x.idx.eval(m, memo)
		if int(raw) < len(x.table) {
			return x.table[raw]
		}
		return "<bad symstr>"
	case iface:
		return renderUnder(x.v, m, memo)
	}
	return toString(v)
}

// opaque wraps a native Go value handled only by intercepts (e.g. *regexp.Regexp).
type opaque struct{ v interface{} }

// vchan is an interpreted channel (used only under the cooperative scheduler).
type vchan struct {
	buf    []value
	cap    int
	closed bool
	elem   types.Type
	id     int
}

// slotsStrEq compares the JSON text of a (partly) symbolic int32 list with
// another string: two canonical list texts are equal exactly when the lists
// have the same length and equal elements.
func (i *interpreter) slotsStrEq(s symSlotsStr, other value) value {
	var ovals []value
	switch o := other.(type) {
	case symSlotsStr:
		ovals = o.vals
	default:
		if _, ok := other.(symStr); ok {
			other = i.concreteStr(other)
		}
		str, ok := other.(string)
		if !ok {
			panic(engineTrap{msg: fmt.Sprintf("comparison of a symbolic slot list text with %T", other)})
		}
		var xs []int32
		if err := json.Unmarshal([]byte(str), &xs); err != nil || xs == nil {
			return false
		}
		canon, _ := json.Marshal(xs)
		if string(canon) != str {
			// same list in another spelling: a different string
			return false
		}
		for _, x := range xs {
			ovals = append(ovals, x)
		}
	}
	if len(ovals) != len(s.vals) {
		return false
	}
	tt := i.sym.tt
	acc := tt.tru
	for k := range s.vals {
		acc = tt.and(acc, i.sym.boolTerm(i.eqv(types.Typ[types.Int32], s.vals[k], ovals[k])))
	}
	return wrapBool(acc)
}
