// Copyright 2013 The Go Authors. All rights reserved.
// Use of this source code is governed by a BSD-style
// license that can be found in the LICENSE file.
//
// Derived from golang.org/x/tools/go/ssa/interp (v0.29.0); modified for
// symbolic execution (symgo).

package symgo

import (
	"bytes"
	"fmt"
	"go/types"
	"io"
	"strings"

	"golang.org/x/tools/go/ssa"
)

type value interface{}

type tuple []value

type array []value

type iface struct {
	t types.Type // never an "untyped" type
	v value
}

type structure []value

// For map, array, *array, slice, string or channel.
type iter interface {
	// next returns a Tuple (key, value, ok).
	// key and value are unaliased, e.g. copies of the sequence element.
	next() tuple
}

type closure struct {
	Fn  *ssa.Function
	Env []value
}

type bad struct{}

// reflect.Value struct values don't have a fixed shape, since the
// payload can be a scalar or an aggregate depending on the instance.
// So store (and load) can't simply use recursion over the shape of the
// rhs value, or the lhs, to copy the value; we need the static type
// information.  (We can't make reflect.Value a new basic data type
// because its "structness" is exposed to Go programs.)

// load returns the value of type T in *addr.
func load(T types.Type, addr *value) value {
	switch T := T.Underlying().(type) {
	case *types.Struct:
		v := (*addr).(structure)
		a := make(structure, len(v))
		for i := range a {
			a[i] = load(T.Field(i).Type(), &v[i])
		}
		return a
	case *types.Array:
		v := (*addr).(array)
		a := make(array, len(v))
		for i := range a {
			a[i] = load(T.Elem(), &v[i])
		}
		return a
	default:
		return *addr
	}
}

// store stores value v of type T into *addr.
func store(T types.Type, addr *value, v value) {
	switch T := T.Underlying().(type) {
	case *types.Struct:
		lhs := (*addr).(structure)
		rhs := v.(structure)
		for i := range lhs {
			store(T.Field(i).Type(), &lhs[i], rhs[i])
		}
	case *types.Array:
		lhs := (*addr).(array)
		rhs := v.(array)
		for i := range lhs {
			store(T.Elem(), &lhs[i], rhs[i])
		}
	default:
		*addr = v
	}
}

// Prints in the style of built-in println.
// (More or less; in gc println is actually a compiler intrinsic and
// can distinguish println(1) from println(interface{}(1)).)
func writeValue(buf *bytes.Buffer, v value) {
	switch v := v.(type) {
	case nil, bool, int, int8, int16, int32, int64, uint, uint8, uint16, uint32, uint64, uintptr, float32, float64, complex64, complex128, string:
		fmt.Fprintf(buf, "%v", v)

	case *omap:
		buf.WriteString("map[")
		if v != nil {
			for i := range v.keys {
				if i > 0 {
					buf.WriteString(" ")
				}
				writeValue(buf, v.keys[i])
				buf.WriteString(":")
				writeValue(buf, v.vals[i])
			}
		}
		buf.WriteString("]")

	case *vchan:
		fmt.Fprintf(buf, "%p", v)

	case *value:
		if v == nil {
			buf.WriteString("<nil>")
		} else {
			fmt.Fprintf(buf, "%p", v)
		}

	case iface:
		fmt.Fprintf(buf, "(%s, ", v.t)
		writeValue(buf, v.v)
		buf.WriteString(")")

	case structure:
		buf.WriteString("{")
		for i, e := range v {
			if i > 0 {
				buf.WriteString(" ")
			}
			writeValue(buf, e)
		}
		buf.WriteString("}")

	case array:
		buf.WriteString("[")
		for i, e := range v {
			if i > 0 {
				buf.WriteString(" ")
			}
			writeValue(buf, e)
		}
		buf.WriteString("]")

	case []value:
		buf.WriteString("[")
		for i, e := range v {
			if i > 0 {
				buf.WriteString(" ")
			}
			writeValue(buf, e)
		}
		buf.WriteString("]")

	case *ssa.Function, *ssa.Builtin, *closure:
		fmt.Fprintf(buf, "%p", v) // (an address)

	case symInt:
		buf.WriteString("<sym " + v.t.full() + ">")
	case symBool:
		buf.WriteString("<symbool " + v.t.full() + ">")
	case symStr:
		fmt.Fprintf(buf, "<symstr %s %v>", v.idx.full(), v.table)

	case tuple:
		// Unreachable in well-formed Go programs
		buf.WriteString("(")
		for i, e := range v {
			if i > 0 {
				buf.WriteString(", ")
			}
			writeValue(buf, e)
		}
		buf.WriteString(")")

	default:
		fmt.Fprintf(buf, "<%T>", v)
	}
}

// Implements printing of Go values in the style of built-in println.
func toString(v value) string {
	var b bytes.Buffer
	writeValue(&b, v)
	return b.String()
}

// ------------------------------------------------------------------------
// Iterators

type stringIter struct {
	*strings.Reader
	i int
}

func (it *stringIter) next() tuple {
	okv := make(tuple, 3)
	ch, n, err := it.ReadRune()
	ok := err != io.EOF
	okv[0] = ok
	if ok {
		okv[1] = it.i
		okv[2] = ch
	}
	it.i += n
	return okv
}
