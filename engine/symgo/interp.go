// Copyright 2013 The Go Authors. All rights reserved.
// Use of this source code is governed by a BSD-style
// license that can be found in the LICENSE file.
//
// Derived from golang.org/x/tools/go/ssa/interp (v0.29.0). Changes: slice
// framed registers with pre-resolved operands, symbolic scalars, explicit
// target panics (engine faults are never visible to the target), on-demand
// tolerant package initialisation, intercept table, ordered maps.

package symgo

import (
	"fmt"
	"go/token"
	"go/types"
	"os"
	"runtime/debug"
	"strings"
	"time"

	"golang.org/x/tools/go/ssa"
)

type continuation int

const (
	kNext continuation = iota
	kReturn
	kJump
)

// engineTrap: the interpreter cannot (or must not) continue; the run is inconclusive.
type engineTrap struct {
	msg   string
	stack string
	where []string
}

type poison struct{ why string }

// StepProfile, if set (single worker only), accumulates instructions per function.
var StepProfile map[string]int64

// InitTrace, if set, receives slow package initialisations.
var InitTrace func(string)

// State of one worker's interpreter.
type interpreter struct {
	prog               *ssa.Program
	globals            map[*ssa.Global]*value
	runtimeErrorString types.Type
	sizes              types.Sizes
	inited             map[*ssa.Package]bool
	Poisoned           []string
	sym                *symCtx
	stack              []*cfunc
	maxDepth           int
	maxSteps           int64
	frozenCells        map[*value]struct{}
	sched              *scheduler
	icptCache          map[*ssa.Function]interceptFn
	icptMiss           map[*ssa.Function]bool
	funcsRun           map[*ssa.Function]int64
	errorsNewType      types.Type
	cfg                *Config
	natState           map[string]interface{}
	arena              []value
	sp                 int
	lastPanicWhere     []string
	lastInstr          ssa.Instruction
	traceFn            string
	spec               *specCtx
	ifConv             bool
	ifStats            IfConvStats
	freshMaps          map[*omap]struct{}
	icptPure           map[*ssa.Function]bool
	mapOrderCache      map[*cfunc]bool
}

type deferred struct {
	fn    value
	args  []value
	instr *ssa.Defer
	tail  *deferred
}

type frame struct {
	i                *interpreter
	caller           *frame
	cf               *cfunc
	block, prevBlock *cblock
	regs             []value
	defers           *deferred
	result           value
	panicking        bool
	panic            interface{}
	phitemps         []value
	tolerant         bool
	arena            []value // arena state while this frame is the innermost one
	sp               int
	skipPhis         bool
}

func (fr *frame) get(o operand) value {
	if o >= 0 {
		return fr.regs[o]
	}
	if o == noOperand {
		return nil
	}
	switch c := fr.cf.consts[^o].(type) {
	case globalRef:
		return fr.i.globalAddr(c.g)
	case freshZero:
		return zero(c.t)
	default:
		return c
	}
}

func (i *interpreter) globalAddr(g *ssa.Global) *value {
	if r, ok := i.globals[g]; ok {
		return r
	}
	cell := zero(mustDeref(g.Type()))
	p := &cell
	i.globals[g] = p
	i.ensureInit(g.Pkg)
	return p
}

// runtimeError builds the target-visible value of a run-time panic.
func (i *interpreter) runtimeError(msg string) value {
	i.lastPanicWhere = i.stackNames()
	if i.lastInstr != nil {
		i.lastPanicWhere = append([]string{i.prog.Fset.Position(i.lastInstr.Pos()).String() + " (" + i.lastInstr.String() + ")"}, i.lastPanicWhere...)
	}
	return iface{i.runtimeErrorString, strings.TrimPrefix(msg, "runtime error: ")}
}

func (i *interpreter) nilDeref() {
	panic(targetPanic{i.runtimeError("invalid memory address or nil pointer dereference")})
}

func (fr *frame) runDefer(d *deferred) {
	var ok bool
	defer func() {
		if !ok {
			r := recover()
			if _, isTarget := r.(targetPanic); !isTarget {
				panic(r) // engine-level unwinding passes through
			}
			fr.panicking = true
			fr.panic = r
		}
	}()
	call(fr.i, fr, d.instr.Pos(), d.fn, d.args)
	ok = true
}

func (fr *frame) runDefers() {
	for d := fr.defers; d != nil; d = d.tail {
		fr.runDefer(d)
	}
	fr.defers = nil
	if fr.panicking {
		panic(fr.panic) // new panic, or still panicking
	}
}

func lookupMethod(i *interpreter, typ types.Type, meth *types.Func) *ssa.Function {
	return i.prog.LookupMethod(typ, meth.Pkg(), meth.Name())
}

func (i *interpreter) checkFrozen(addr *value) {
	if i.frozenCells != nil {
		if _, ok := i.frozenCells[addr]; ok {
			i.frozenWrite("store into a frozen object")
		}
	}
}

func (i *interpreter) frozenWrite(what string) {
	var where []string
	for k := len(i.stack) - 1; k >= 0 && len(where) < 6; k-- {
		where = append(where, i.stack[k].name)
	}
	i.sym.notes = append(i.sym.notes, noteRec{key: "frozen-write", vals: []value{what + " in " + strings.Join(where, " < ")}})
	i.sym.assert(i.sym.tt.fls, i.cfg.FreezeProperty, "frozen object modified")
}

// visitInstr interprets a single instruction.
func visitInstr(fr *frame, ci *cinstr) continuation {
	i := fr.i
	i.lastInstr = ci.ins
	switch instr := ci.ins.(type) {
	case *ssa.UnOp:
		fr.regs[ci.dst] = i.unop(fr, instr, fr.get(ci.x))

	case *ssa.BinOp:
		fr.regs[ci.dst] = i.binop(instr.Op, instr.X.Type(), fr.get(ci.x), fr.get(ci.y))

	case *ssa.Call:
		fn, args := prepareCall(fr, &instr.Call, ci)
		fr.regs[ci.dst] = call(i, fr, instr.Pos(), fn, args)

	case *ssa.ChangeInterface:
		fr.regs[ci.dst] = fr.get(ci.x)

	case *ssa.ChangeType:
		fr.regs[ci.dst] = fr.get(ci.x)

	case *ssa.Convert:
		fr.regs[ci.dst] = i.conv(instr.Type(), instr.X.Type(), fr.get(ci.x))

	case *ssa.SliceToArrayPointer:
		fr.regs[ci.dst] = i.sliceToArrayPointer(instr.Type(), instr.X.Type(), fr.get(ci.x))

	case *ssa.MakeInterface:
		fr.regs[ci.dst] = iface{t: instr.X.Type(), v: fr.get(ci.x)}

	case *ssa.Extract:
		fr.regs[ci.dst] = fr.get(ci.x).(tuple)[instr.Index]

	case *ssa.Slice:
		lo, hi, mx := fr.get(ci.args[0]), fr.get(ci.args[1]), fr.get(ci.args[2])
		x := fr.get(ci.x)
		if _, ok := x.(symStr); ok {
			x = i.concreteStr(x)
		}
		fr.regs[ci.dst] = i.slice(x, i.concreteInt(lo), i.concreteInt(hi), i.concreteInt(mx))

	case *ssa.Return:
		switch len(ci.args) {
		case 0:
		case 1:
			fr.result = fr.get(ci.args[0])
		default:
			res := make([]value, len(ci.args))
			for k, r := range ci.args {
				res[k] = fr.get(r)
			}
			fr.result = tuple(res)
		}
		fr.block = nil
		return kReturn

	case *ssa.RunDefers:
		fr.runDefers()

	case *ssa.Panic:
		panic(targetPanic{fr.get(ci.x)})

	case *ssa.Send:
		i.chanSend(fr, fr.get(ci.x).(*vchan), fr.get(ci.y))

	case *ssa.Store:
		addr := fr.get(ci.x).(*value)
		if addr == nil {
			i.nilDeref()
		}
		if i.frozenCells != nil {
			i.checkFrozen(addr)
		}
		if i.spec != nil {
			i.specLogDeep(addr)
		}
		store(mustDeref(instr.Addr.Type()), addr, fr.get(ci.y))

	case *ssa.If:
		succ := 1
		c := fr.get(ci.x)
		var taken bool
		switch c := c.(type) {
		case bool:
			taken = c
		case symBool:
			if fr.tryIfConvert(ci, c) {
				if i.traceFn != "" && strings.Contains(fr.cf.name, i.traceFn) {
					fmt.Fprintf(os.Stderr, "TRACE   if-converted at block %d cond %s -> join %d\n", fr.prevBlock.index, c.t.full(), fr.block.index)
				}
				return kJump
			}
			taken = i.sym.decide(c.t)
			if i.traceFn != "" && strings.Contains(fr.cf.name, i.traceFn) {
				fmt.Fprintf(os.Stderr, "TRACE   decided %v on %s\n", taken, c.t.full())
			}
		default:
			panic(fmt.Sprintf("If: condition is %T", c))
		}
		if taken {
			succ = 0
		}
		fr.prevBlock, fr.block = fr.block, fr.cf.blocks[fr.block.b.Succs[succ].Index]
		return kJump

	case *ssa.Jump:
		fr.prevBlock, fr.block = fr.block, fr.cf.blocks[fr.block.b.Succs[0].Index]
		return kJump

	case *ssa.Defer:
		fn, args := prepareCall(fr, &instr.Call, ci)
		defers := &fr.defers
		if into := fr.get(ci.y); into != nil {
			defers = into.(**deferred)
		}
		*defers = &deferred{fn: fn, args: args, instr: instr, tail: *defers}

	case *ssa.Go:
		fn, args := prepareCall(fr, &instr.Call, ci)
		i.spawn(fr, fn, args)

	case *ssa.MakeChan:
		n := asInt64(i.concreteInt(fr.get(ci.x)))
		fr.regs[ci.dst] = i.makeChan(int(n), instr.Type().Underlying().(*types.Chan).Elem())

	case *ssa.Alloc:
		var addr *value
		if instr.Heap {
			addr = new(value)
			fr.regs[ci.dst] = addr
		} else {
			addr = fr.regs[ci.dst].(*value)
			if i.spec != nil {
				i.specLogDeep(addr)
			}
		}
		*addr = zero(mustDeref(instr.Type()))
		if i.spec != nil && instr.Heap {
			i.markFresh(addr)
		}

	case *ssa.MakeSlice:
		cp := asInt64(i.concreteInt(fr.get(ci.y)))
		ln := asInt64(i.concreteInt(fr.get(ci.x)))
		if ln < 0 || cp < ln {
			panic(targetPanic{i.runtimeError("makeslice: len out of range")})
		}
		if cp > 1<<20 {
			panic(boundExceeded{fmt.Sprintf("make([]T, %d): allocation larger than the engine bound 2^20", cp)})
		}
		slice := make([]value, cp)
		tElt := instr.Type().Underlying().(*types.Slice).Elem()
		for k := range slice {
			slice[k] = zero(tElt)
		}
		if i.spec != nil {
			for k := range slice {
				i.markFresh(&slice[k])
			}
		}
		fr.regs[ci.dst] = slice[:ln]

	case *ssa.MakeMap:
		m := newOmap()
		if i.spec != nil {
			if i.freshMaps == nil {
				i.freshMaps = map[*omap]struct{}{}
			}
			i.freshMaps[m] = struct{}{}
		}
		fr.regs[ci.dst] = m

	case *ssa.Range:
		it := i.rangeIter(fr.get(ci.x), instr.X.Type())
		if oi, ok := it.(*omapIter); ok && len(oi.keys) >= 2 && len(oi.keys) <= 3 && i.cfg != nil && i.mapOrderIn(fr.cf) {
			i.permuteIter(oi)
		}
		fr.regs[ci.dst] = it

	case *ssa.Next:
		fr.regs[ci.dst] = fr.get(ci.x).(iter).next()

	case *ssa.FieldAddr:
		p := fr.get(ci.x).(*value)
		if p == nil {
			i.nilDeref()
		}
		fr.regs[ci.dst] = &(*p).(structure)[instr.Field]

	case *ssa.Field:
		fr.regs[ci.dst] = fr.get(ci.x).(structure)[instr.Field]

	case *ssa.IndexAddr:
		x := fr.get(ci.x)
		idx := fr.get(ci.y)
		switch x := x.(type) {
		case []value:
			k := i.checkIndex(idx, len(x))
			fr.regs[ci.dst] = &x[k]
		case *value: // *array
			if x == nil {
				i.nilDeref()
			}
			a := (*x).(array)
			k := i.checkIndex(idx, len(a))
			fr.regs[ci.dst] = &a[k]
		default:
			panic(fmt.Sprintf("unexpected x type in IndexAddr: %T", x))
		}

	case *ssa.Index:
		x := fr.get(ci.x)
		idx := fr.get(ci.y)
		switch x := x.(type) {
		case array:
			fr.regs[ci.dst] = x[i.checkIndex(idx, len(x))]
		case string:
			fr.regs[ci.dst] = x[i.checkIndex(idx, len(x))]
		case symStr:
			s := i.concreteStr(x).(string)
			fr.regs[ci.dst] = s[i.checkIndex(idx, len(s))]
		default:
			panic(fmt.Sprintf("unexpected x type in Index: %T", x))
		}

	case *ssa.Lookup:
		fr.regs[ci.dst] = i.lookup(instr, fr.get(ci.x), fr.get(ci.y))

	case *ssa.MapUpdate:
		m := fr.get(ci.x).(*omap)
		if m == nil {
			panic(targetPanic{i.runtimeError("assignment to entry in nil map")})
		}
		if m.frozen {
			i.frozenWrite("update of a frozen map")
		}
		if i.spec != nil {
			if _, fresh := i.freshMaps[m]; !fresh {
				panic(specBail{"map update"})
			}
		}
		key := fr.get(ci.y)
		if _, ok := key.(symStr); ok {
			key = i.concreteStr(key)
		}
		v := fr.get(ci.z)
		kt := instr.Map.Type().Underlying().(*types.Map).Key()
		if j := i.omapFind(m, kt, key); j >= 0 {
			m.vals[j] = v
		} else {
			m.appendEntry(key, v)
		}

	case *ssa.TypeAssert:
		fr.regs[ci.dst] = typeAssert(i, instr, fr.get(ci.x).(iface))

	case *ssa.MakeClosure:
		bindings := make([]value, len(ci.args))
		for k, b := range ci.args {
			bindings[k] = fr.get(b)
		}
		fr.regs[ci.dst] = &closure{instr.Fn.(*ssa.Function), bindings}

	case *ssa.Select:
		fr.regs[ci.dst] = i.selectStmt(fr, instr, ci)

	default:
		panic(fmt.Sprintf("unexpected instruction: %T", instr))
	}
	return kNext
}

// permuteIter makes the iteration order of a small map a symbolic choice
// (Go leaves it unspecified): one path per permutation.
func (i *interpreter) permuteIter(it *omapIter) {
	n := len(it.keys)
	fact := 1
	for k := 2; k <= n; k++ {
		fact *= k
	}
	s := i.sym
	v := s.fresh("maporder", 8)
	s.assume(s.tt.bvcmp(opBvUlt, v, s.tt.bv(uint64(fact), 8)))
	p := int(s.concretise(v))
	idx := make([]int, n)
	for k := range idx {
		idx[k] = k
	}
	// decode p as a permutation (factorial number system)
	var order []int
	for k := n; k >= 1; k-- {
		f := 1
		for j := 2; j < k; j++ {
			f *= j
		}
		q := p / f
		p = p % f
		order = append(order, idx[q])
		idx = append(idx[:q:q], idx[q+1:]...)
	}
	keys := make([]value, n)
	vals := make([]value, n)
	for k, o := range order {
		keys[k], vals[k] = it.keys[o], it.vals[o]
	}
	it.keys, it.vals = keys, vals
}

// checkIndex validates idx against length n, forking on a symbolic index.
func (i *interpreter) checkIndex(idx value, n int) int64 {
	if s, ok := idx.(symInt); ok {
		tt := i.sym.tt
		_, signed := kindBits(s.k)
		var inRange *term
		nn := tt.bv(uint64(n), s.t.bits)
		if signed {
			inRange = tt.and(tt.bvcmp(opBvSle, tt.bv(0, s.t.bits), s.t), tt.bvcmp(opBvSlt, s.t, nn))
		} else {
			inRange = tt.bvcmp(opBvUlt, s.t, nn)
		}
		if !i.sym.decide(inRange) {
			// give the panic value a concrete index for the message
			k := asInt64(i.concreteInt(idx))
			panic(targetPanic{i.runtimeError(fmt.Sprintf("index out of range [%d] with length %d", k, n))})
		}
		idx = i.concreteInt(idx)
	}
	k := asInt64(idx)
	if k < 0 || k >= int64(n) {
		panic(targetPanic{i.runtimeError(fmt.Sprintf("index out of range [%d] with length %d", k, n))})
	}
	return k
}

// lookup returns x[idx] where x is a map.
func (i *interpreter) lookup(instr *ssa.Lookup, x, idx value) value {
	m, ok := x.(*omap)
	if !ok {
		panic(fmt.Sprintf("unexpected x type in Lookup: %T", x))
	}
	mt := instr.X.Type().Underlying().(*types.Map)
	if _, ok := idx.(symStr); ok {
		idx = i.concreteStr(idx)
	}
	var v value
	found := value(false)
	done := false
	if m != nil && (isSym(idx) || m.symKeys > 0) {
		// Non-forking lookup when every candidate value merges into one term.
		if simpleKey(idx) {
			if j, ok := m.idx[idx]; ok {
				v, found, done = m.vals[j], true, true
			}
		}
		if !done {
			tt := i.sym.tt
			z := zero(mt.Elem())
			acc := z
			var okT *term = tt.fls
			merged := true
			for j := len(m.keys) - 1; j >= 0; j-- {
				kk := m.keys[j]
				if simpleKey(idx) && !isSym(kk) {
					continue
				}
				c := i.sym.boolTerm(i.eqv(mt.Key(), kk, idx))
				if c.isFalse() {
					continue
				}
				nv, ok := i.iteValue(c, m.vals[j], acc)
				if !ok {
					merged = false
					break
				}
				acc = nv
				okT = tt.or(okT, c)
			}
			if merged {
				v, found, done = acc, wrapBool(okT), true
			}
		}
	}
	if !done {
		if j := i.omapFind(m, mt.Key(), idx); j >= 0 {
			v, found = m.vals[j], true
		} else {
			v = zero(mt.Elem())
		}
	}
	if instr.CommaOk {
		return tuple{v, found}
	}
	return v
}

func prepareCall(fr *frame, call *ssa.CallCommon, ci *cinstr) (fn value, args []value) {
	v := fr.get(ci.x)
	if call.Method == nil {
		fn = v
		args = make([]value, 0, len(ci.args))
	} else {
		recv := v.(iface)
		if recv.t == nil {
			fr.i.nilDeref()
		}
		f := lookupMethod(fr.i, recv.t, call.Method)
		if f == nil {
			panic(fmt.Sprintf("method set for dynamic type %v does not contain %s", recv.t, call.Method))
		}
		fn = f
		args = make([]value, 0, len(ci.args)+1)
		args = append(args, recv.v)
	}
	for _, a := range ci.args {
		args = append(args, fr.get(a))
	}
	return
}

func call(i *interpreter, caller *frame, callpos token.Pos, fn value, args []value) value {
	switch fn := fn.(type) {
	case *ssa.Function:
		if fn == nil {
			i.nilDeref()
		}
		return callSSA(i, caller, callpos, fn, args, nil)
	case *closure:
		if fn == nil {
			i.nilDeref()
		}
		return callSSA(i, caller, callpos, fn.Fn, args, fn.Env)
	case *ssa.Builtin:
		return callBuiltin(caller, callpos, fn, args)
	}
	panic(fmt.Sprintf("cannot call %T", fn))
}

func callSSA(i *interpreter, caller *frame, callpos token.Pos, fn *ssa.Function, args []value, env []value) value {
	if fn.Parent() == nil {
		if icpt := i.intercept(fn); icpt != nil {
			if i.spec != nil && !i.icptPure[fn] {
				panic(specBail{"impure intercept " + fn.String()})
			}
			return icpt(caller, fn, args)
		}
		if fn.Blocks == nil {
			panic(engineTrap{msg: "no code for function: " + fn.String()})
		}
	}
	if fn.TypeParams().Len() > 0 && len(fn.TypeArgs()) == 0 {
		panic("uninstantiated generic function " + fn.String())
	}
	cf := compiled(fn)
	if i.funcsRun != nil {
		i.funcsRun[fn]++
	}
	fr := &frame{i: i, caller: caller, cf: cf}
	if caller != nil {
		fr.tolerant = false
	}
	i.stack = append(i.stack, cf)
	if len(i.stack) > i.maxDepth {
		panic(boundExceeded{fmt.Sprintf("call depth exceeds %d", i.maxDepth)})
	}
	// registers live in a per-interpreter arena used as a stack; SSA defines
	// every register before it is read, so the slots are not cleared.
	savedArena, savedSP := i.arena, i.sp
	if i.sp+cf.nregs > len(i.arena) {
		n := 1 << 16
		if cf.nregs > n {
			n = cf.nregs
		}
		i.arena = make([]value, n)
		i.sp = 0
	}
	fr.regs = i.arena[i.sp : i.sp+cf.nregs : i.sp+cf.nregs]
	i.sp += cf.nregs
	copy(fr.regs, args[:cf.nparams])
	copy(fr.regs[cf.nparams:], env)
	for k, r := range cf.localRegs {
		cell := zero(cf.localTyps[k])
		fr.regs[r] = &cell
		if i.spec != nil {
			i.markFresh(&cell)
		}
	}
	fr.block = cf.blocks[0]
	fr.arena, fr.sp = i.arena, i.sp
	for fr.block != nil {
		runFrame(fr)
	}
	i.arena, i.sp = savedArena, savedSP
	i.stack = i.stack[:len(i.stack)-1]
	return fr.result
}

// runFrame executes instructions until return, or until a target panic has
// been handled by the frame's deferred calls.
func runFrame(fr *frame) {
	depth := len(fr.i.stack)
	defer func() {
		if fr.block == nil {
			return // normal return
		}
		r := recover()
		switch r.(type) {
		case targetPanic:
		default:
			// engine-level: annotate once and keep unwinding
			if _, ok := r.(pathAbort); ok {
				panic(r)
			}
			if _, ok := r.(boundExceeded); ok {
				panic(r)
			}
			if _, ok := r.(solverTrouble); ok {
				panic(r)
			}
			if _, ok := r.(goroutineSwitch); ok {
				panic(r)
			}
			if _, ok := r.(specBail); ok {
				panic(r)
			}
			if et, ok := r.(engineTrap); ok {
				if et.where == nil {
					et.where = fr.i.stackNames()
					if et.stack == "" {
						et.stack = string(debug.Stack())
					}
				}
				panic(et)
			}
			panic(engineTrap{msg: fmt.Sprint(r), stack: string(debug.Stack()), where: fr.i.stackNames()})
		}
		fr.i.stack = fr.i.stack[:depth]
		fr.i.arena, fr.i.sp = fr.arena, fr.sp
		fr.panicking = true
		fr.panic = r
		fr.runDefers()
		if fr.cf.fn.Recover == nil {
			fr.block = nil
			fr.result = zeroResults(fr.cf.fn)
		} else {
			fr.block = fr.cf.blocks[fr.cf.fn.Recover.Index]
		}
	}()

	sym := fr.i.sym
	for {
		b := fr.block
		if fr.skipPhis {
			fr.skipPhis = false
		} else if len(b.phis) > 0 {
			predIndex := -1
			for k, p := range b.b.Preds {
				if p == fr.prevBlock.b {
					predIndex = k
					break
				}
			}
			fr.phitemps = fr.phitemps[:0]
			for _, phi := range b.phis {
				fr.phitemps = append(fr.phitemps, fr.get(phi.edges[predIndex]))
			}
			for k, phi := range b.phis {
				fr.regs[phi.dst] = fr.phitemps[k]
			}
		}
		if fr.i.traceFn != "" && strings.Contains(fr.cf.name, fr.i.traceFn) {
			fmt.Fprintf(os.Stderr, "TRACE %s block %d (%s) spec=%v\n", fr.cf.fn.Name(), b.index, b.b.Comment, fr.i.spec != nil)
		}
		sym.steps += int64(len(b.instrs))
		if StepProfile != nil {
			StepProfile[fr.cf.name] += int64(len(b.instrs))
		}
		if sym.steps > fr.i.maxSteps {
			panic(boundExceeded{fmt.Sprintf("more than %d instructions on one path", fr.i.maxSteps)})
		}
		for k := range b.instrs {
			var c continuation
			if fr.tolerant {
				c = fr.visitTolerant(&b.instrs[k])
			} else {
				c = visitInstr(fr, &b.instrs[k])
			}
			if c == kReturn {
				return
			}
			if c == kJump {
				break
			}
		}
	}
}

func (i *interpreter) stackNames() []string {
	var out []string
	for k := len(i.stack) - 1; k >= 0 && len(out) < 12; k-- {
		out = append(out, i.stack[k].name)
	}
	return out
}

func zeroResults(fn *ssa.Function) value {
	res := fn.Signature.Results()
	switch res.Len() {
	case 0:
		return nil
	case 1:
		return zero(res.At(0).Type())
	}
	t := make(tuple, res.Len())
	for k := range t {
		t[k] = zero(res.At(k).Type())
	}
	return t
}

// doRecover implements the recover() built-in.
func doRecover(caller *frame) value {
	if caller != nil && !caller.panicking &&
		caller.caller != nil && caller.caller.panicking {
		caller.caller.panicking = false
		p := caller.caller.panic
		caller.caller.panic = nil
		if tp, ok := p.(targetPanic); ok {
			return tp.v
		}
		panic(fmt.Sprintf("unexpected panic type %T in target call to recover()", p))
	}
	return iface{}
}

// ---- package initialisation on demand

func (i *interpreter) ensureInit(pkg *ssa.Package) {
	if pkg == nil || i.inited[pkg] {
		return
	}
	i.inited[pkg] = true
	if InitTrace != nil {
		t0 := time.Now()
		defer func() {
			if d := time.Since(t0); d > 50*time.Millisecond {
				InitTrace(fmt.Sprintf("init of %s took %v", pkg.Pkg.Path(), d))
			}
		}()
	}
	initFn := pkg.Func("init")
	if initFn == nil || initFn.Blocks == nil {
		return
	}
	// Run outside the current path's bookkeeping: initialisers are concrete.
	saved := i.stack
	i.stack = nil
	defer func() { i.stack = saved }()
	cf := compiled(initFn)
	fr := &frame{i: i, cf: cf, tolerant: true}
	fr.regs = make([]value, cf.nregs)
	for k, r := range cf.localRegs {
		cell := zero(cf.localTyps[k])
		fr.regs[r] = &cell
	}
	fr.block = cf.blocks[0]
	for fr.block != nil {
		runFrame(fr)
	}
}

func (fr *frame) visitTolerant(ci *cinstr) (k continuation) {
	if c, ok := ci.ins.(*ssa.Call); ok {
		if f, ok := c.Call.Value.(*ssa.Function); ok {
			if f.Pkg != fr.cf.fn.Pkg && f.Name() == "init" {
				return kNext // imported package: initialised on demand
			}
			if f.Pkg == fr.cf.fn.Pkg && strings.HasPrefix(f.Name(), "init#") && skipInitFuncs(f.Pkg.Pkg.Path()) {
				return kNext // registration-only init functions (schemes, protobuf)
			}
		}
	}
	steps := fr.i.sym.steps
	savedArena, savedSP := fr.i.arena, fr.i.sp
	defer func() {
		if r := recover(); r != nil {
			switch r.(type) {
			case pathAbort, solverTrouble, goroutineSwitch, specBail:
				panic(r)
			}
			fr.i.arena, fr.i.sp = savedArena, savedSP
			why := fmt.Sprintf("%s: %v: %v", fr.cf.fn.Pkg.Pkg.Path(), ci.ins, trapMsg(r))
			if len(why) > 300 {
				why = why[:300]
			}
			fr.i.Poisoned = append(fr.i.Poisoned, why)
			if ci.dst >= 0 {
				fr.regs[ci.dst] = poison{why}
			}
			fr.i.stack = fr.i.stack[:0]
			fr.i.sym.steps = steps
			k = kNext
		}
	}()
	if c, ok := ci.ins.(*ssa.Call); ok {
		if f, ok := c.Call.Value.(*ssa.Function); ok && f.Pkg == fr.cf.fn.Pkg && strings.HasPrefix(f.Name(), "init#") && f.Blocks != nil {
			cf := compiled(f)
			sub := &frame{i: fr.i, cf: cf, tolerant: true, caller: fr}
			sub.regs = make([]value, cf.nregs)
			for k, r := range cf.localRegs {
				cell := zero(cf.localTyps[k])
				sub.regs[r] = &cell
			}
			sub.block = cf.blocks[0]
			for sub.block != nil {
				runFrame(sub)
			}
			return kNext
		}
	}
	// initialisers may be long (tables); do not charge the path budget
	c := visitInstr(fr, ci)
	fr.i.sym.steps = steps
	return c
}

// skipInitFuncs: packages whose init() functions only register types with
// reflection-driven registries (schemes, protobuf). Their package-level
// variable initialisers still run.
func skipInitFuncs(path string) bool {
	for _, p := range []string{"k8s.io/api/", "k8s.io/client-go/kubernetes/scheme", "github.com/gogo/protobuf", "github.com/golang/protobuf",
		"google.golang.org/protobuf", "k8s.io/apimachinery/pkg/apis/meta/v1", "github.com/pingcap/advanced-statefulset/pkg/controller/statefulset",
		"github.com/pingcap/advanced-statefulset/client/client/clientset/versioned/scheme", "k8s.io/apimachinery/pkg/api/resource"} {
		if strings.HasPrefix(path, p) {
			return true
		}
	}
	return false
}

func trapMsg(r interface{}) string {
	switch r := r.(type) {
	case engineTrap:
		return r.msg
	case targetPanic:
		return "panic: " + toString(r.v)
	case boundExceeded:
		return r.why
	}
	return fmt.Sprint(r)
}

// mapOrderIn: does the spec ask for every iteration order of small maps in this function?
// Keys of MapOrderFuncs are exact function names, or substrings when they start with "~".
func (i *interpreter) mapOrderIn(cf *cfunc) bool {
	if v, ok := i.mapOrderCache[cf]; ok {
		return v
	}
	r := i.cfg.MapOrderFuncs[cf.name]
	if !r {
		for k := range i.cfg.MapOrderFuncs {
			if strings.HasPrefix(k, "~") && strings.Contains(cf.name, k[1:]) {
				r = true
			}
		}
	}
	if i.mapOrderCache == nil {
		i.mapOrderCache = map[*cfunc]bool{}
	}
	i.mapOrderCache[cf] = r
	return r
}
