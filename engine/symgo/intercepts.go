package symgo

// Environment model: functions that are not interpreted from source.
// The list is part of every claim and is printed in the evidence files.

import (
	"encoding/json"
	"fmt"
	"go/token"
	"go/types"
	"reflect"
	"regexp"
	"sort"
	"strconv"
	"strings"
	"unicode"
	"unicode/utf8"

	"golang.org/x/tools/go/ssa"
)

type interceptFn func(caller *frame, fn *ssa.Function, args []value) value

// Config carries per-run settings that influence interception.
type Config struct {
	Stubs          map[string]string // real function -> model function (same package, or "import/path.Func")
	FreezeProperty string
	SymPkg         string // import path of the harness API package
	// MapOrderFuncs: functions in which `range` over a map of 2..3 entries
	// explores every iteration order (Go leaves the order unspecified).
	MapOrderFuncs map[string]bool
	// MaxPreempt bounds the preemptive context switches of the cooperative scheduler.
	MaxPreempt int
	// NoIfConv disables if-conversion (speculative execution of pure branch regions).
	NoIfConv bool
}

const symPkgSuffix = "/zz_verif/sym"

var noopPrefixes = []string{
	"k8s.io/klog/v2.", "(k8s.io/klog/v2.", "(*k8s.io/klog/v2.",
	"k8s.io/apimachinery/pkg/util/runtime.HandleError",
	"k8s.io/apimachinery/pkg/util/runtime.logPanic",
	"(*sync.Mutex).", "(*sync.RWMutex).", "(*sync.WaitGroup).",
	"time.Sleep", "(*strings.Builder).copyCheck",
	"runtime.SetFinalizer", "runtime.KeepAlive", "runtime.Gosched",
	"internal/race.", "internal/godebug.", "(*internal/godebug.",
}

// UsedIntercepts records which intercepts actually fired (for evidence).
type interceptUse struct {
	counts map[string]int64
}

func (i *interpreter) intercept(fn *ssa.Function) interceptFn {
	if f, ok := i.icptCache[fn]; ok {
		return f
	}
	if i.icptMiss[fn] {
		return nil
	}
	f := i.resolveIntercept(fn)
	if f == nil {
		i.icptMiss[fn] = true
		return nil
	}
	i.icptCache[fn] = f
	if i.icptPure == nil {
		i.icptPure = map[*ssa.Function]bool{}
	}
	i.icptPure[fn] = pureIntercept(i, fn)
	return f
}

// pureIntercept: intercepts that may run inside a speculation (if-conversion):
// they have no effect other than building their result.
func pureIntercept(i *interpreter, fn *ssa.Function) bool {
	name := fn.String()
	if fn.Pkg != nil && strings.HasSuffix(fn.Pkg.Pkg.Path(), symPkgSuffix) {
		switch fn.Name() {
		case "And", "Or", "Not", "Implies", "Ite32", "Ite64", "IteInt", "IteStr", "B2I", "IsSymbolic", "SlotsJSON":
			return true
		}
		return false
	}
	if i.cfg != nil {
		if _, ok := i.cfg.Stubs[name]; ok {
			return true // interpreted model: its effects are ordinary stores
		}
	}
	switch name {
	case "fmt.Sprintf", "fmt.Errorf", "fmt.Sprint", "fmt.Sprintln", "fmt.Fprintf", "fmt.Println", "fmt.Printf",
		"(*strings.Builder).String", "internal/bytealg.MakeNoZero", "internal/bytealg.IndexByteString", "internal/bytealg.IndexString",
		"internal/bytealg.CountString", "internal/stringslite.HasPrefix", "internal/stringslite.HasSuffix", "internal/stringslite.Index",
		"internal/stringslite.IndexByte", "bytes.Equal", "time.Now", "time.Since", "time.Until",
		"k8s.io/apimachinery/pkg/util/wait.Jitter", "k8s.io/apimachinery/pkg/util/rand.SafeEncodeString", "errors.Is",
		"reflect.DeepEqual", "(*k8s.io/apimachinery/third_party/forked/golang/reflect.Equalities).DeepEqual",
		"(k8s.io/apimachinery/third_party/forked/golang/reflect.Equalities).DeepEqual", "runtime.Caller", "os.Getenv",
		"k8s.io/apimachinery/pkg/util/runtime.GetCaller", "k8s.io/utils/pointer.AllPtrFieldsNil", "encoding/json.Marshal":
		return true
	}
	for _, p := range noopPrefixes {
		if strings.HasPrefix(name, p) {
			return !strings.Contains(name, "sync.")
		}
	}
	if _, ok := natives[name]; ok {
		return true
	}
	if deepCopyIntercept(fn) != nil {
		return true
	}
	return false
}

func (i *interpreter) resolveIntercept(fn *ssa.Function) interceptFn {
	name := fn.String()
	if fn.Pkg != nil && strings.HasSuffix(fn.Pkg.Pkg.Path(), symPkgSuffix) {
		if f := symAPI[fn.Name()]; f != nil {
			return f
		}
		return nil
	}
	if i.cfg != nil {
		if model, ok := i.cfg.Stubs[name]; ok {
			var mf *ssa.Function
			if k := strings.LastIndex(model, "."); k >= 0 {
				// model in another package ("import/path.Func"): stubs of dependency functions
				if mp := i.prog.ImportedPackage(model[:k]); mp != nil {
					mf = mp.Func(model[k+1:])
				}
			} else {
				mf = fn.Pkg.Func(model)
			}
			if mf == nil {
				panic(engineTrap{msg: "model function " + model + " not found for " + name})
			}
			return func(caller *frame, _ *ssa.Function, args []value) value {
				return callSSA(caller.i, caller, 0, mf, args, nil)
			}
		}
	}
	if f, ok := exactIntercepts[name]; ok {
		return f
	}
	for _, p := range noopPrefixes {
		if strings.HasPrefix(name, p) {
			return func(caller *frame, fn *ssa.Function, args []value) value { return zeroResults(fn) }
		}
	}
	if nf, ok := natives[name]; ok {
		return nativeCall(nf)
	}
	if f := deepCopyIntercept(fn); f != nil {
		return f
	}
	return nil
}

// ---- natives on concrete operands (called through reflection)

var natives = map[string]interface{}{
	"strconv.ParseInt":                    strconv.ParseInt,
	"strconv.ParseUint":                   strconv.ParseUint,
	"strconv.ParseBool":                   strconv.ParseBool,
	"strconv.FormatInt":                   strconv.FormatInt,
	"strconv.FormatUint":                  strconv.FormatUint,
	"strconv.FormatBool":                  strconv.FormatBool,
	"strconv.Itoa":                        strconv.Itoa,
	"strconv.Atoi":                        strconv.Atoi,
	"strconv.Quote":                       strconv.Quote,
	"strconv.Unquote":                     strconv.Unquote,
	"strings.Title":                       strings.Title,
	"strings.ToLower":                     strings.ToLower,
	"strings.ToUpper":                     strings.ToUpper,
	"strings.Split":                       strings.Split,
	"strings.SplitN":                      strings.SplitN,
	"strings.Join":                        strings.Join,
	"strings.HasPrefix":                   strings.HasPrefix,
	"strings.HasSuffix":                   strings.HasSuffix,
	"strings.Contains":                    strings.Contains,
	"strings.TrimPrefix":                  strings.TrimPrefix,
	"strings.TrimSuffix":                  strings.TrimSuffix,
	"strings.TrimSpace":                   strings.TrimSpace,
	"strings.Index":                       strings.Index,
	"strings.LastIndex":                   strings.LastIndex,
	"strings.Replace":                     strings.Replace,
	"strings.ReplaceAll":                  strings.ReplaceAll,
	"strings.EqualFold":                   strings.EqualFold,
	"strings.Fields":                      strings.Fields,
	"strings.Repeat":                      strings.Repeat,
	"strings.Count":                       strings.Count,
	"strings.IndexByte":                   strings.IndexByte,
	"strings.LastIndexByte":               strings.LastIndexByte,
	"strings.ContainsRune":                strings.ContainsRune,
	"strings.ContainsAny":                 strings.ContainsAny,
	"strings.IndexAny":                    strings.IndexAny,
	"strings.IndexRune":                   strings.IndexRune,
	"strings.TrimRight":                   strings.TrimRight,
	"strings.TrimLeft":                    strings.TrimLeft,
	"strings.Trim":                        strings.Trim,
	"strings.Compare":                     strings.Compare,
	"strings.Cut":                         strings.Cut,
	"regexp.MustCompile":                  regexp.MustCompile,
	"regexp.QuoteMeta":                    regexp.QuoteMeta,
	"(*regexp.Regexp).FindStringSubmatch": (*regexp.Regexp).FindStringSubmatch,
	"(*regexp.Regexp).MatchString":        (*regexp.Regexp).MatchString,
	"(*regexp.Regexp).FindString":         (*regexp.Regexp).FindString,
	"(*regexp.Regexp).String":             (*regexp.Regexp).String,
	"unicode.IsLetter":                    unicode.IsLetter,
	"unicode.IsDigit":                     unicode.IsDigit,
	"unicode.IsSpace":                     unicode.IsSpace,
	"unicode.IsUpper":                     unicode.IsUpper,
	"unicode.IsLower":                     unicode.IsLower,
	"unicode.ToLower":                     unicode.ToLower,
	"unicode.ToUpper":                     unicode.ToUpper,
	"unicode/utf8.RuneCountInString":      utf8.RuneCountInString,
	"unicode/utf8.ValidString":            utf8.ValidString,
	"unicode/utf8.RuneLen":                utf8.RuneLen,
}

func toNative(i *interpreter, v value, t reflect.Type) reflect.Value {
	if o, ok := v.(opaque); ok {
		return reflect.ValueOf(o.v)
	}
	v = i.concrete(v)
	switch t.Kind() {
	case reflect.String:
		return reflect.ValueOf(v.(string)).Convert(t)
	case reflect.Slice:
		xs := v.([]value)
		out := reflect.MakeSlice(t, len(xs), len(xs))
		for k, x := range xs {
			out.Index(k).Set(toNative(i, x, t.Elem()))
		}
		return out
	case reflect.Ptr:
		if p, ok := v.(*value); ok && p == nil {
			return reflect.Zero(t)
		}
	}
	return reflect.ValueOf(v).Convert(t)
}

func fromNative(i *interpreter, r reflect.Value, t types.Type) value {
	switch r.Kind() {
	case reflect.String:
		return r.String()
	case reflect.Bool:
		return r.Bool()
	case reflect.Int:
		return int(r.Int())
	case reflect.Int64:
		return r.Int()
	case reflect.Int32:
		return int32(r.Int())
	case reflect.Uint64:
		return r.Uint()
	case reflect.Uint8:
		return uint8(r.Uint())
	case reflect.Slice:
		if r.IsNil() {
			return []value(nil)
		}
		var et types.Type
		if t != nil {
			et = t.Underlying().(*types.Slice).Elem()
		}
		out := make([]value, r.Len())
		for k := range out {
			out[k] = fromNative(i, r.Index(k), et)
		}
		return out
	case reflect.Interface:
		if r.IsNil() {
			return iface{}
		}
		if e, ok := r.Interface().(error); ok {
			return i.newError(e.Error())
		}
	case reflect.Ptr:
		if r.IsNil() {
			return opaque{nil}
		}
		return opaque{r.Interface()}
	}
	panic(fmt.Sprintf("fromNative: unsupported %v", r.Type()))
}

func nativeCall(nf interface{}) interceptFn {
	rf := reflect.ValueOf(nf)
	rt := rf.Type()
	return func(caller *frame, fn *ssa.Function, args []value) value {
		i := caller.i
		var in []reflect.Value
		for k, a := range args {
			var pt reflect.Type
			if rt.IsVariadic() && k >= rt.NumIn()-1 {
				pt = rt.In(rt.NumIn() - 1)
			} else {
				pt = rt.In(k)
			}
			in = append(in, toNative(i, a, pt))
		}
		var out []reflect.Value
		func() {
			defer func() {
				if r := recover(); r != nil {
					// e.g. regexp.MustCompile on a bad pattern: a target-visible panic
					panic(targetPanic{iface{types.Typ[types.String], fmt.Sprint(r)}})
				}
			}()
			if rt.IsVariadic() {
				out = rf.CallSlice(in)
			} else {
				out = rf.Call(in)
			}
		}()
		res := fn.Signature.Results()
		switch len(out) {
		case 0:
			return nil
		case 1:
			return fromNative(i, out[0], res.At(0).Type())
		}
		t := make(tuple, len(out))
		for k, o := range out {
			t[k] = fromNative(i, o, res.At(k).Type())
		}
		return t
	}
}

// ---- error construction: real *errors.errorString / *fmt.wrapError objects

func (i *interpreter) namedType(pkg, name string) types.Type {
	p := i.prog.ImportedPackage(pkg)
	if p == nil {
		panic(engineTrap{msg: "package " + pkg + " not loaded"})
	}
	return p.Type(name).Object().Type()
}

func (i *interpreter) newError(msg string) value {
	t := i.namedType("errors", "errorString")
	var cell value = structure{msg}
	return iface{t: types.NewPointer(t), v: &cell}
}

func (i *interpreter) newWrapError(msg string, inner value) value {
	t := i.namedType("fmt", "wrapError")
	var cell value = structure{msg, inner}
	return iface{t: types.NewPointer(t), v: &cell}
}

// errorString calls the Error method of an interpreted error value.
func (i *interpreter) errorString(caller *frame, e iface) string {
	if e.t == nil {
		return "<nil>"
	}
	m := i.prog.MethodSets.MethodSet(e.t).Lookup(nil, "Error")
	if m == nil {
		return "<" + e.t.String() + ">"
	}
	f := i.prog.MethodValue(m)
	return i.concreteStr(callSSA(i, caller, 0, f, []value{e.v}, nil)).(string)
}

// anyToNative renders an interpreter value as a Go value suitable for fmt.
func (i *interpreter) anyToNative(caller *frame, a value) interface{} {
	a = i.concrete(a)
	switch a := a.(type) {
	case iface:
		if a.t == nil {
			return nil
		}
		ms := i.prog.MethodSets.MethodSet(a.t)
		if m := ms.Lookup(nil, "Error"); m != nil {
			if f := i.prog.MethodValue(m); f != nil && f.Signature.Params().Len() == 0 {
				if p, ok := a.v.(*value); ok && p == nil {
					return "<nil>"
				}
				return fmt.Errorf("%s", i.errorString(caller, a))
			}
		}
		// String() methods are not called: generated ones use reflection. The
		// text of formatted messages is not the subject of any property.
		if _, isPtr := a.v.(*value); isPtr {
			return "<" + a.t.String() + ">"
		}
		return i.anyToNative(caller, a.v)
	case string, bool, int, int8, int16, int32, int64, uint, uint8, uint16, uint32, uint64, uintptr, float32, float64:
		return a
	case *value:
		if a == nil {
			return nil
		}
		return "&" + toString(i.deepConcrete(*a))
	case []value:
		// []byte prints as bytes, others as list
		bs := make([]byte, 0, len(a))
		for _, x := range a {
			b, ok := i.concrete(x).(uint8)
			if !ok {
				bs = nil
				break
			}
			bs = append(bs, b)
		}
		if bs != nil || len(a) == 0 {
			return bs
		}
		out := make([]interface{}, len(a))
		for k, x := range a {
			out[k] = i.anyToNative(caller, x)
		}
		return out
	}
	return toString(i.deepConcrete(a))
}

type stringerValue string

func (s stringerValue) String() string { return string(s) }

func bytesOf(i *interpreter, v value) []byte {
	xs := v.([]value)
	bs := make([]byte, len(xs))
	for k, x := range xs {
		bs[k] = i.concrete(x).(uint8)
	}
	return bs
}

func valuesOfBytes(bs []byte) []value {
	out := make([]value, len(bs))
	for k, b := range bs {
		out[k] = b
	}
	return out
}

func (i *interpreter) sprintf(caller *frame, format value, args value) (string, value) {
	f := i.concreteStr(format).(string)
	var as []interface{}
	var wrapped value
	for _, a := range args.([]value) {
		if it, ok := a.(iface); ok && it.t != nil && wrapped == nil && strings.Contains(f, "%w") {
			if i.prog.MethodSets.MethodSet(it.t).Lookup(nil, "Error") != nil {
				wrapped = it
			}
		}
		as = append(as, i.anyToNative(caller, a))
	}
	return fmt.Sprintf(strings.ReplaceAll(f, "%w", "%v"), as...), wrapped
}

var exactIntercepts map[string]interceptFn

func init() {
	exactIntercepts = map[string]interceptFn{
		"fmt.Sprintf": func(caller *frame, fn *ssa.Function, args []value) value {
			s, _ := caller.i.sprintf(caller, args[0], args[1])
			return s
		},
		"fmt.Errorf": func(caller *frame, fn *ssa.Function, args []value) value {
			s, w := caller.i.sprintf(caller, args[0], args[1])
			if w != nil {
				return caller.i.newWrapError(s, w)
			}
			return caller.i.newError(s)
		},
		"fmt.Sprint": func(caller *frame, fn *ssa.Function, args []value) value {
			var as []interface{}
			for _, a := range args[0].([]value) {
				as = append(as, caller.i.anyToNative(caller, a))
			}
			return fmt.Sprint(as...)
		},
		"fmt.Sprintln": func(caller *frame, fn *ssa.Function, args []value) value {
			var as []interface{}
			for _, a := range args[0].([]value) {
				as = append(as, caller.i.anyToNative(caller, a))
			}
			return fmt.Sprintln(as...)
		},
		"fmt.Fprintf": func(caller *frame, fn *ssa.Function, args []value) value {
			return tuple{0, iface{}}
		},
		"fmt.Println": func(caller *frame, fn *ssa.Function, args []value) value {
			return tuple{0, iface{}}
		},
		"fmt.Printf": func(caller *frame, fn *ssa.Function, args []value) value {
			return tuple{0, iface{}}
		},
		"(*strings.Builder).String": func(caller *frame, fn *ssa.Function, args []value) value {
			b := (*args[0].(*value)).(structure)
			if b[1] == nil {
				return ""
			}
			return string(bytesOf(caller.i, b[1]))
		},
		"internal/bytealg.MakeNoZero": func(caller *frame, fn *ssa.Function, args []value) value {
			n := args[0].(int)
			out := make([]value, n)
			for k := range out {
				out[k] = uint8(0)
			}
			return out
		},
		"internal/bytealg.IndexByteString": func(caller *frame, fn *ssa.Function, args []value) value {
			return strings.IndexByte(caller.i.concreteStr(args[0]).(string), caller.i.concrete(args[1]).(uint8))
		},
		"internal/bytealg.IndexString": func(caller *frame, fn *ssa.Function, args []value) value {
			return strings.Index(caller.i.concreteStr(args[0]).(string), caller.i.concreteStr(args[1]).(string))
		},
		"internal/bytealg.CountString": func(caller *frame, fn *ssa.Function, args []value) value {
			return strings.Count(caller.i.concreteStr(args[0]).(string), string([]byte{caller.i.concrete(args[1]).(uint8)}))
		},
		"internal/stringslite.HasPrefix": func(caller *frame, fn *ssa.Function, args []value) value {
			return strings.HasPrefix(caller.i.concreteStr(args[0]).(string), caller.i.concreteStr(args[1]).(string))
		},
		"internal/stringslite.HasSuffix": func(caller *frame, fn *ssa.Function, args []value) value {
			return strings.HasSuffix(caller.i.concreteStr(args[0]).(string), caller.i.concreteStr(args[1]).(string))
		},
		"internal/stringslite.Index": func(caller *frame, fn *ssa.Function, args []value) value {
			return strings.Index(caller.i.concreteStr(args[0]).(string), caller.i.concreteStr(args[1]).(string))
		},
		"internal/stringslite.IndexByte": func(caller *frame, fn *ssa.Function, args []value) value {
			return strings.IndexByte(caller.i.concreteStr(args[0]).(string), caller.i.concrete(args[1]).(uint8))
		},
		"bytes.Equal": func(caller *frame, fn *ssa.Function, args []value) value {
			a, b := args[0].([]value), args[1].([]value)
			if len(a) != len(b) {
				return false
			}
			i := caller.i
			var acc value = true
			for k := range a {
				r := i.eqv(types.Typ[types.Uint8], a[k], b[k])
				switch r := r.(type) {
				case bool:
					if !r {
						return false
					}
				case symBool:
					if accb, ok := acc.(bool); ok && accb {
						acc = r
					} else {
						acc = wrapBool(i.sym.tt.and(i.sym.boolTerm(acc), r.t))
					}
				}
			}
			return acc
		},
		"encoding/json.Unmarshal": icptJSONUnmarshal,
		"encoding/json.Marshal":   icptJSONMarshal,
		"time.Now": func(caller *frame, fn *ssa.Function, args []value) value {
			// a fixed non-zero instant: wall=0, ext=seconds since year 1, loc=nil (UTC)
			t := zero(fn.Signature.Results().At(0).Type()).(structure)
			t[1] = int64(63800000000)
			return t
		},
		"time.Since": func(caller *frame, fn *ssa.Function, args []value) value { return int64(0) },
		"time.Until": func(caller *frame, fn *ssa.Function, args []value) value { return int64(0) },
		"k8s.io/apimachinery/pkg/util/wait.Jitter": func(caller *frame, fn *ssa.Function, args []value) value {
			return args[0]
		},
		"k8s.io/apimachinery/pkg/util/rand.SafeEncodeString": func(caller *frame, fn *ssa.Function, args []value) value {
			s := caller.i.concreteStr(args[0]).(string)
			const alphanums = "bcdfghjklmnpqrstvwxz2456789"
			r := make([]byte, len(s))
			for k, b := range []rune(s) {
				r[k] = alphanums[(int(b) % len(alphanums))]
			}
			return string(r)
		},
		"(*sync.Once).Do": func(caller *frame, fn *ssa.Function, args []value) value {
			// the done flag lives in the Once itself (sync.Once{done atomic.Uint32{_, v uint32}; m}):
			// a side table keyed by the address would keep every per-path object that
			// embeds a Once alive for the whole run
			i := caller.i
			p := args[0].(*value)
			once := (*p).(structure)
			au := once[0].(structure)
			k := len(au) - 1
			if d, _ := au[k].(uint32); d == 0 {
				au[k] = uint32(1)
				call(i, caller, 0, args[1], nil)
			}
			return nil
		},
		"(*sync.Once).doSlow": func(caller *frame, fn *ssa.Function, args []value) value {
			call(caller.i, caller, 0, args[1], nil)
			return nil
		},
		"(*sync.Pool).Get": func(caller *frame, fn *ssa.Function, args []value) value {
			pool := (*args[0].(*value)).(structure)
			newFn := pool[len(pool)-1]
			switch f := newFn.(type) {
			case *ssa.Function:
				if f == nil {
					return iface{}
				}
			case *closure:
				if f == nil {
					return iface{}
				}
			}
			return call(caller.i, caller, 0, newFn, nil)
		},
		"(*sync.Pool).Put": func(caller *frame, fn *ssa.Function, args []value) value { return nil },
		"sort.Slice":       icptSortSlice,
		"sort.SliceStable": icptSortSlice,
		"errors.Is":        icptErrorsIs,
		"errors.As":        icptErrorsAs,
		"reflect.DeepEqual": func(caller *frame, fn *ssa.Function, args []value) value {
			return caller.i.deepEqual(args[0], args[1], false)
		},
		"(*k8s.io/apimachinery/third_party/forked/golang/reflect.Equalities).DeepEqual": func(caller *frame, fn *ssa.Function, args []value) value {
			return caller.i.deepEqual(args[1], args[2], true)
		},
		"(k8s.io/apimachinery/third_party/forked/golang/reflect.Equalities).DeepEqual": func(caller *frame, fn *ssa.Function, args []value) value {
			return caller.i.deepEqual(args[1], args[2], true)
		},
		"runtime.Caller": func(caller *frame, fn *ssa.Function, args []value) value {
			return tuple{uintptr(0), "", 0, false}
		},
		"k8s.io/apimachinery/pkg/util/runtime.GetCaller": func(caller *frame, fn *ssa.Function, args []value) value { return "" },
		"k8s.io/utils/pointer.AllPtrFieldsNil": func(caller *frame, fn *ssa.Function, args []value) value {
			it := args[0].(iface)
			if it.t == nil {
				panic(targetPanic{iface{types.Typ[types.String], "reflect.ValueOf(nil interface) is not valid"}})
			}
			t := it.t
			v := it.v
			if pt, ok := t.Underlying().(*types.Pointer); ok {
				p := v.(*value)
				if p == nil {
					return true
				}
				t, v = pt.Elem(), *p
			}
			st, ok := t.Underlying().(*types.Struct)
			if !ok {
				panic(engineTrap{msg: "AllPtrFieldsNil on a non-struct"})
			}
			s := v.(structure)
			for k := 0; k < st.NumFields(); k++ {
				if _, isPtr := st.Field(k).Type().Underlying().(*types.Pointer); isPtr {
					if p := s[k].(*value); p != nil {
						return false
					}
				}
			}
			return true
		},
		"(*sync.Mutex).Lock": func(caller *frame, fn *ssa.Function, args []value) value {
			caller.i.mutexLock(args[0].(*value))
			return nil
		},
		"(*sync.Mutex).Unlock": func(caller *frame, fn *ssa.Function, args []value) value {
			caller.i.mutexUnlock(args[0].(*value))
			return nil
		},
		"os.Getenv":                        func(caller *frame, fn *ssa.Function, args []value) value { return "" },
		"sync/atomic.LoadInt32":            atomicLoad,
		"sync/atomic.LoadInt64":            atomicLoad,
		"sync/atomic.LoadUint32":           atomicLoad,
		"sync/atomic.LoadUint64":           atomicLoad,
		"sync/atomic.StoreInt32":           atomicStore,
		"sync/atomic.StoreInt64":           atomicStore,
		"sync/atomic.StoreUint32":          atomicStore,
		"sync/atomic.StoreUint64":          atomicStore,
		"sync/atomic.AddInt32":             atomicAdd,
		"sync/atomic.AddInt64":             atomicAdd,
		"sync/atomic.AddUint32":            atomicAdd,
		"sync/atomic.AddUint64":            atomicAdd,
		"sync/atomic.CompareAndSwapInt32":  atomicCAS,
		"sync/atomic.CompareAndSwapInt64":  atomicCAS,
		"sync/atomic.CompareAndSwapUint32": atomicCAS,
		"sync/atomic.CompareAndSwapUint64": atomicCAS,
	}
}

func atomicLoad(caller *frame, fn *ssa.Function, args []value) value {
	p := args[0].(*value)
	if p == nil {
		caller.i.nilDeref()
	}
	return *p
}
func atomicStore(caller *frame, fn *ssa.Function, args []value) value {
	p := args[0].(*value)
	if p == nil {
		caller.i.nilDeref()
	}
	caller.i.checkFrozen(p)
	*p = args[1]
	return nil
}
func atomicAdd(caller *frame, fn *ssa.Function, args []value) value {
	p := args[0].(*value)
	if p == nil {
		caller.i.nilDeref()
	}
	caller.i.checkFrozen(p)
	*p = caller.i.binop(tokenADD, nil, *p, args[1])
	return *p
}
func atomicCAS(caller *frame, fn *ssa.Function, args []value) value {
	p := args[0].(*value)
	if p == nil {
		caller.i.nilDeref()
	}
	if caller.i.truth(caller.i.eqv(nil, *p, args[1])) {
		caller.i.checkFrozen(p)
		*p = args[2]
		return true
	}
	return false
}

// ---- sort.Slice

func icptSortSlice(caller *frame, fn *ssa.Function, args []value) value {
	i := caller.i
	xs, ok := args[0].(iface).v.([]value)
	if !ok {
		panic(engineTrap{msg: "sort.Slice on a non-slice"})
	}
	less := args[1]
	// insertion sort: stable, and its comparison sequence is deterministic
	tmp := append([]value(nil), xs...)
	idx := make([]int, len(xs))
	for k := range idx {
		idx[k] = k
	}
	// the less callback indexes the *original* slice, so sort a permutation
	// by repeatedly swapping adjacent elements in place.
	_ = tmp
	for a := 1; a < len(xs); a++ {
		for b := a; b > 0; b-- {
			r := call(i, caller, 0, less, []value{b, b - 1})
			if !i.truth(r) {
				break
			}
			xs[b], xs[b-1] = xs[b-1], xs[b]
		}
	}
	return nil
}

// ---- errors.Is / errors.As over interpreted values

func (i *interpreter) methodOf(t types.Type, name string) *ssa.Function {
	m := i.prog.MethodSets.MethodSet(t).Lookup(nil, name)
	if m == nil {
		// unexported or package-qualified lookups are not needed here
		return nil
	}
	return i.prog.MethodValue(m)
}

func (i *interpreter) unwrapAll(caller *frame, e iface) []iface {
	if f := i.methodOf(e.t, "Unwrap"); f != nil && f.Signature.Params().Len() == 0 && f.Signature.Results().Len() == 1 {
		r := callSSA(i, caller, 0, f, []value{e.v}, nil)
		switch r := r.(type) {
		case iface:
			if r.t == nil {
				return nil
			}
			return []iface{r}
		case []value:
			var out []iface
			for _, x := range r {
				if it := x.(iface); it.t != nil {
					out = append(out, it)
				}
			}
			return out
		}
	}
	return nil
}

func icptErrorsIs(caller *frame, fn *ssa.Function, args []value) value {
	i := caller.i
	err, target := args[0].(iface), args[1].(iface)
	if err.t == nil || target.t == nil {
		return err.t == nil && target.t == nil
	}
	var is func(e iface) bool
	is = func(e iface) bool {
		if types.Comparable(e.t) && sameType(e.t, target.t) {
			if i.truth(i.eqv(e.t, e.v, target.v)) {
				return true
			}
		}
		if f := i.methodOf(e.t, "Is"); f != nil && f.Signature.Params().Len() == 1 {
			if i.truth(callSSA(i, caller, 0, f, []value{e.v, target}, nil)) {
				return true
			}
		}
		for _, u := range i.unwrapAll(caller, e) {
			if is(u) {
				return true
			}
		}
		return false
	}
	return is(err)
}

func icptErrorsAs(caller *frame, fn *ssa.Function, args []value) value {
	i := caller.i
	err, target := args[0].(iface), args[1].(iface)
	if err.t == nil {
		return false
	}
	if target.t == nil {
		panic(targetPanic{iface{types.Typ[types.String], "errors: target cannot be nil"}})
	}
	pt, ok := target.t.Underlying().(*types.Pointer)
	if !ok {
		panic(targetPanic{iface{types.Typ[types.String], "errors: target must be a non-nil pointer"}})
	}
	tp := target.v.(*value)
	if tp == nil {
		panic(targetPanic{iface{types.Typ[types.String], "errors: target must be a non-nil pointer"}})
	}
	elem := pt.Elem()
	_, elemIsIface := elem.Underlying().(*types.Interface)
	var as func(e iface) bool
	as = func(e iface) bool {
		if elemIsIface {
			if types.AssignableTo(e.t, elem) {
				*tp = e
				return true
			}
		} else if types.Identical(e.t, elem) {
			*tp = e.v
			return true
		}
		if f := i.methodOf(e.t, "As"); f != nil && f.Signature.Params().Len() == 1 {
			if i.truth(callSSA(i, caller, 0, f, []value{e.v, target}, nil)) {
				return true
			}
		}
		for _, u := range i.unwrapAll(caller, e) {
			if as(u) {
				return true
			}
		}
		return false
	}
	return as(err)
}

// ---- structural equality (reflect.DeepEqual / Semantic.DeepEqual)

// deepEqual compares two interface-boxed values structurally. With semantic
// set, nil and empty slices/maps are equal (the forked k8s reflect.Equalities
// behaviour) and types with custom equality funcs the engine does not know
// trap.
func (i *interpreter) deepEqual(a, b value, semantic bool) value {
	x, y := a.(iface), b.(iface)
	if x.t == nil || y.t == nil {
		return x.t == nil && y.t == nil
	}
	if !types.Identical(x.t, y.t) {
		return false
	}
	var acc *term = i.sym.tt.tru
	ok := i.deepEq(x.t, x.v, y.v, semantic, &acc, map[[2]*value]bool{})
	if !ok {
		return false
	}
	return wrapBool(acc)
}

func (i *interpreter) deepEq(t types.Type, x, y value, semantic bool, acc **term, seen map[[2]*value]bool) bool {
	if semantic {
		if n, ok := t.(*types.Named); ok && n.Obj().Pkg() != nil {
			q := n.Obj().Pkg().Path() + "." + n.Obj().Name()
			switch q {
			case "k8s.io/apimachinery/pkg/api/resource.Quantity", "k8s.io/apimachinery/pkg/apis/meta/v1.MicroTime",
				"k8s.io/apimachinery/pkg/apis/meta/v1.Time":
				// custom equality funcs in Semantic; compare structurally only when both are zero-shaped
			}
		}
	}
	switch u := t.Underlying().(type) {
	case *types.Basic:
		r := i.eqv(t, x, y)
		switch r := r.(type) {
		case bool:
			return r
		case symBool:
			*acc = i.sym.tt.and(*acc, r.t)
			return true
		}
	case *types.Pointer:
		px, py := x.(*value), y.(*value)
		if px == nil || py == nil {
			return px == py
		}
		if px == py {
			return true
		}
		k := [2]*value{px, py}
		if seen[k] {
			return true
		}
		seen[k] = true
		return i.deepEq(u.Elem(), *px, *py, semantic, acc, seen)
	case *types.Struct:
		sx, sy := x.(structure), y.(structure)
		for k := 0; k < u.NumFields(); k++ {
			if !i.deepEq(u.Field(k).Type(), sx[k], sy[k], semantic, acc, seen) {
				return false
			}
		}
		return true
	case *types.Array:
		ax, ay := x.(array), y.(array)
		for k := range ax {
			if !i.deepEq(u.Elem(), ax[k], ay[k], semantic, acc, seen) {
				return false
			}
		}
		return true
	case *types.Slice:
		sx, sy := x.([]value), y.([]value)
		if !semantic && (sx == nil) != (sy == nil) {
			return false
		}
		if len(sx) != len(sy) {
			return false
		}
		for k := range sx {
			if !i.deepEq(u.Elem(), sx[k], sy[k], semantic, acc, seen) {
				return false
			}
		}
		return true
	case *types.Map:
		mx, my := x.(*omap), y.(*omap)
		if !semantic && (mx == nil) != (my == nil) {
			return false
		}
		if mx.length() != my.length() {
			return false
		}
		if mx == nil {
			return true
		}
		for k, key := range mx.keys {
			j := i.omapFind(my, u.Key(), key)
			if j < 0 {
				return false
			}
			if !i.deepEq(u.Elem(), mx.vals[k], my.vals[j], semantic, acc, seen) {
				return false
			}
		}
		return true
	case *types.Interface:
		ix, iy := x.(iface), y.(iface)
		if ix.t == nil || iy.t == nil {
			return ix.t == nil && iy.t == nil
		}
		if !types.Identical(ix.t, iy.t) {
			return false
		}
		return i.deepEq(ix.t, ix.v, iy.v, semantic, acc, seen)
	case *types.Signature:
		// funcs are equal only if both nil
		return isNilFunc(x) && isNilFunc(y)
	case *types.Chan:
		return x.(*vchan) == y.(*vchan)
	}
	panic(engineTrap{msg: "deepEqual: unsupported type " + t.String()})
}

func isNilFunc(v value) bool {
	switch f := v.(type) {
	case *ssa.Function:
		return f == nil
	case *closure:
		return f == nil
	}
	return false
}

// ---- JSON (restricted)

func icptJSONUnmarshal(caller *frame, fn *ssa.Function, args []value) value {
	i := caller.i
	target := args[1].(iface)
	if target.t == nil {
		return i.newError("json: Unmarshal(nil)")
	}
	if raw, ok := args[0].([]value); ok && len(raw) == 1 {
		if blob, ok := raw[0].(jsonBlob); ok {
			// structural model of the codec for API objects (jsonmodel.go)
			pt, ok := target.t.Underlying().(*types.Pointer)
			cell, _ := target.v.(*value)
			if !ok || cell == nil {
				return i.newError("json: Unmarshal(non-pointer or nil)")
			}
			res := i.jsonTranscode(blob.t, blob.v, pt.Elem())
			store(pt.Elem(), cell, res)
			return iface{}
		}
	}
	if raw, ok := args[0].([]value); ok && len(raw) == 1 {
		if sl, ok := raw[0].(symSlotsPayload); ok && target.t.String() != "*[]int32" {
			// the symbolic delete-slots list decoded into another integer slice type: the decoder
			// rejects an element that does not fit (negative into unsigned, out of range) with a
			// type error, leaves that element zero and goes on
			if pt, ok := target.t.Underlying().(*types.Pointer); ok {
				if st, ok := pt.Elem().Underlying().(*types.Slice); ok {
					if eb, ok := st.Elem().Underlying().(*types.Basic); ok && eb.Info()&types.IsInteger != 0 {
						i32 := types.Typ[types.Int32]
						bad := false
						out := []value{}
						for _, x := range sl.vals {
							fits := true
							if eb.Info()&types.IsUnsigned != 0 {
								fits = i.truth(i.binop(token.GEQ, i32, x, int32(0)))
							}
							switch eb.Kind() {
							case types.Int8, types.Uint8, types.Int16, types.Uint16:
								panic(engineTrap{msg: "json.Unmarshal of the symbolic slot list into " + target.t.String()})
							}
							if !fits {
								bad = true
								out = append(out, zero(st.Elem()))
								continue
							}
							out = append(out, i.conv(st.Elem(), i32, x))
						}
						*(target.v.(*value)) = out
						if bad {
							return i.newError("json: cannot unmarshal number into Go value of type " + st.Elem().String())
						}
						return iface{}
					}
				}
			}
		}
	}
	if target.t.String() == "*[]int32" {
		// the delete-slots codec: symbolic payloads are tagged slices produced by
		// sym.SlotsJSON; concrete strings go to the real decoder.
		raw := args[0].([]value)
		if len(raw) == 1 {
			if sl, ok := raw[0].(symSlotsPayload); ok {
				*(target.v.(*value)) = append([]value(nil), sl.vals...)
				return iface{}
			}
		}
		bs := bytesOf(i, raw)
		var out []int32
		err := json.Unmarshal(bs, &out)
		var vs []value
		if out != nil {
			vs = []value{}
		}
		for _, x := range out {
			vs = append(vs, x)
		}
		*(target.v.(*value)) = vs
		if err != nil {
			return i.newError(err.Error())
		}
		return iface{}
	}
	panic(engineTrap{msg: "json.Unmarshal: unsupported target " + target.t.String()})
}

// symSlotsPayload is the single "byte" of a symbolic delete-slots annotation.
type symSlotsPayload struct{ vals []value }

func icptJSONMarshal(caller *frame, fn *ssa.Function, args []value) value {
	i := caller.i
	v := args[0].(iface)
	if v.t != nil && v.t.String() == "[]int32" {
		xs := v.v.([]value)
		anySym := false
		for _, x := range xs {
			if isSym(x) {
				anySym = true
			}
		}
		if anySym {
			return tuple{[]value{symSlotsPayload{append([]value(nil), xs...)}}, iface{}}
		}
	}
	if v.t != nil && isAPIObject(v.t) {
		return tuple{[]value{jsonBlob{v.t, i.deepCopyValue(v.t, v.v)}}, iface{}}
	}
	var b strings.Builder
	if err := i.jsonEncode(caller, &b, v.t, v.v); err != "" {
		return tuple{[]value(nil), i.newError(err)}
	}
	return tuple{valuesOfBytes([]byte(b.String())), iface{}}
}

// jsonEncode supports the shapes needed for owner-reference patches and
// delete-slot lists: structs with json tags, strings, bools, ints, pointers,
// slices, maps with string keys.
func (i *interpreter) jsonEncode(caller *frame, b *strings.Builder, t types.Type, v value) string {
	if t == nil {
		b.WriteString("null")
		return ""
	}
	switch u := t.Underlying().(type) {
	case *types.Basic:
		v = i.concrete(v)
		switch x := v.(type) {
		case string:
			bs, _ := json.Marshal(x)
			b.Write(bs)
		case bool:
			fmt.Fprint(b, x)
		default:
			if _, ok := kindOfValue(v); ok {
				fmt.Fprint(b, v)
			} else {
				return "json: unsupported basic " + t.String()
			}
		}
	case *types.Pointer:
		p := v.(*value)
		if p == nil {
			b.WriteString("null")
			return ""
		}
		return i.jsonEncode(caller, b, u.Elem(), *p)
	case *types.Interface:
		it := v.(iface)
		if it.t == nil {
			b.WriteString("null")
			return ""
		}
		return i.jsonEncode(caller, b, it.t, it.v)
	case *types.Slice:
		xs := v.([]value)
		if xs == nil {
			b.WriteString("null")
			return ""
		}
		if bk, ok := u.Elem().Underlying().(*types.Basic); ok && bk.Kind() == types.Uint8 {
			return "json: []byte not supported by the engine model"
		}
		b.WriteByte('[')
		for k, x := range xs {
			if k > 0 {
				b.WriteByte(',')
			}
			if e := i.jsonEncode(caller, b, u.Elem(), x); e != "" {
				return e
			}
		}
		b.WriteByte(']')
	case *types.Map:
		m := v.(*omap)
		if m == nil {
			b.WriteString("null")
			return ""
		}
		type kv struct {
			k string
			v value
		}
		var kvs []kv
		for k := range m.keys {
			ks, ok := i.concrete(m.keys[k]).(string)
			if !ok {
				return "json: non-string map key"
			}
			kvs = append(kvs, kv{ks, m.vals[k]})
		}
		sort.Slice(kvs, func(a, b int) bool { return kvs[a].k < kvs[b].k })
		b.WriteByte('{')
		for k, e := range kvs {
			if k > 0 {
				b.WriteByte(',')
			}
			bs, _ := json.Marshal(e.k)
			b.Write(bs)
			b.WriteByte(':')
			if er := i.jsonEncode(caller, b, u.Elem(), e.v); er != "" {
				return er
			}
		}
		b.WriteByte('}')
	case *types.Struct:
		s := v.(structure)
		b.WriteByte('{')
		first := true
		for k := 0; k < u.NumFields(); k++ {
			f := u.Field(k)
			if !f.Exported() {
				continue
			}
			tag := reflect.StructTag(u.Tag(k)).Get("json")
			name := f.Name()
			omitempty := false
			if tag == "-" {
				continue
			}
			if tag != "" {
				parts := strings.Split(tag, ",")
				if parts[0] != "" {
					name = parts[0]
				}
				for _, p := range parts[1:] {
					if p == "omitempty" {
						omitempty = true
					}
					if p == "inline" {
						return "json: inline fields not supported by the engine model"
					}
				}
			}
			if f.Embedded() && tag == "" {
				return "json: embedded fields not supported by the engine model"
			}
			if omitempty && isEmptyJSON(s[k]) {
				continue
			}
			if !first {
				b.WriteByte(',')
			}
			first = false
			bs, _ := json.Marshal(name)
			b.Write(bs)
			b.WriteByte(':')
			if er := i.jsonEncode(caller, b, f.Type(), s[k]); er != "" {
				return er
			}
		}
		b.WriteByte('}')
	default:
		return "json: unsupported type " + t.String()
	}
	return ""
}

func isEmptyJSON(v value) bool {
	switch x := v.(type) {
	case string:
		return x == ""
	case bool:
		return !x
	case *value:
		return x == nil
	case []value:
		return len(x) == 0
	case *omap:
		return x.length() == 0
	case iface:
		return x.t == nil
	}
	if _, ok := kindOfValue(v); ok {
		return isZeroInt(v)
	}
	return false
}

// ---- generated deep copies of dependency API types

// deepCopyIntercept recognises the generated DeepCopy/DeepCopyInto methods of
// k8s.io/api and k8s.io/apimachinery types and implements them structurally
// (same result as the generated code: nil-preserving copies of pointers,
// slices and maps, field-wise copies of structs). The repository's own
// generated deep copies are interpreted from source.
func deepCopyIntercept(fn *ssa.Function) interceptFn {
	if fn.Pkg == nil || fn.Signature.Recv() == nil {
		return nil
	}
	path := fn.Pkg.Pkg.Path()
	if !strings.HasPrefix(path, "k8s.io/api/") && !strings.HasPrefix(path, "k8s.io/apimachinery/pkg/apis/meta/v1") &&
		path != "k8s.io/apimachinery/pkg/runtime" && path != "k8s.io/apimachinery/pkg/api/resource" && path != "k8s.io/apimachinery/pkg/util/intstr" {
		return nil
	}
	pt, ok := fn.Signature.Recv().Type().(*types.Pointer)
	if !ok {
		return nil
	}
	elem := pt.Elem()
	switch fn.Name() {
	case "DeepCopyInto":
		if fn.Signature.Params().Len() != 1 {
			return nil
		}
		return func(caller *frame, _ *ssa.Function, args []value) value {
			in, out := args[0].(*value), args[1].(*value)
			if in == nil || out == nil {
				caller.i.nilDeref()
			}
			caller.i.checkFrozen(out)
			if caller.i.spec != nil {
				caller.i.specLogDeep(out)
			}
			store(elem, out, caller.i.deepCopyValue(elem, *in))
			return nil
		}
	case "DeepCopy":
		if fn.Signature.Params().Len() != 0 || fn.Signature.Results().Len() != 1 {
			return nil
		}
		if _, ok := fn.Signature.Results().At(0).Type().(*types.Pointer); !ok {
			return nil
		}
		return func(caller *frame, _ *ssa.Function, args []value) value {
			in := args[0].(*value)
			if in == nil {
				return (*value)(nil)
			}
			c := caller.i.deepCopyValue(elem, *in)
			return &c
		}
	}
	return nil
}

func (i *interpreter) deepCopyValue(t types.Type, v value) value {
	if n, ok := t.(*types.Named); ok && n.Obj().Pkg() != nil && n.Obj().Pkg().Path() == "time" && n.Obj().Name() == "Time" {
		return load(t, &v)
	}
	switch u := t.Underlying().(type) {
	case *types.Basic, *types.Signature, *types.Chan:
		return v
	case *types.Pointer:
		p := v.(*value)
		if p == nil {
			return p
		}
		c := i.deepCopyValue(u.Elem(), *p)
		return &c
	case *types.Struct:
		s := v.(structure)
		out := make(structure, len(s))
		for k := range s {
			out[k] = i.deepCopyValue(u.Field(k).Type(), s[k])
		}
		return out
	case *types.Array:
		a := v.(array)
		out := make(array, len(a))
		for k := range a {
			out[k] = i.deepCopyValue(u.Elem(), a[k])
		}
		return out
	case *types.Slice:
		s := v.([]value)
		if s == nil {
			return s
		}
		out := make([]value, len(s))
		for k := range s {
			out[k] = i.deepCopyValue(u.Elem(), s[k])
		}
		return out
	case *types.Map:
		m := v.(*omap)
		if m == nil {
			return m
		}
		out := newOmap()
		for k := range m.keys {
			out.appendEntry(m.keys[k], i.deepCopyValue(u.Elem(), m.vals[k]))
		}
		return out
	case *types.Interface:
		it := v.(iface)
		if it.t == nil {
			return it
		}
		return iface{it.t, i.deepCopyValue(it.t, it.v)}
	}
	panic(engineTrap{msg: "deepCopyValue: unsupported type " + t.String()})
}
