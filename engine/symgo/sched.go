package symgo

// Goroutines and channels.
//
// Interpreted goroutines run as coroutines: each has a carrier Go goroutine,
// but exactly one runs at any time and control changes hands only at
// synchronisation operations (go, channel send/receive/close, select, mutex
// lock/unlock, goroutine exit, sym.Quiesce). At each such point the next
// runnable goroutine is a *symbolic choice*, decided and forked like any other
// branch, so all interleavings of synchronisation operations within the bounds
// are explored. For race-free code this is exact under the Go memory model.
//
// Without goroutines (the usual case) none of this machinery is active and
// only non-blocking channel operations are possible.

import (
	"fmt"
	"go/types"

	"golang.org/x/tools/go/ssa"
)

type goroutineSwitch struct{}

type gstate int

const (
	gRunnable gstate = iota
	gBlocked
	gDone
	gQuiescing // main waiting for every other goroutine to block or finish
)

type gor struct {
	id     int
	state  gstate
	resume chan struct{}
	// saved interpreter context
	stack []*cfunc
	arena []value
	sp    int
	// wake-up data
	recvVal  value
	recvOk   bool
	selIndex int
	what     string // what it is blocked on (diagnostics)
	fn       string
}

type waiter struct {
	g      *gor
	val    value // for senders
	selIdx int   // case index when parked by a select, else -1
	sel    *selectPark
}

type selectPark struct {
	done bool
}

type scheduler struct {
	i      *interpreter
	gs     []*gor
	cur    *gor
	fatal  interface{} // engine-level outcome raised in a non-main goroutine
	dying  bool
	points int
	maxPts int
	// preemption bound: a switch away from a goroutine that could have
	// continued counts as a preemption; switches at blocking points are free
	preempt    int
	maxPreempt int
	mutexes    map[*value]*vmutex
}

type vmutex struct {
	held    bool
	waiters []*gor
}

func (i *interpreter) ensureSched() *scheduler {
	if i.sched == nil {
		main := &gor{id: 0, state: gRunnable, resume: make(chan struct{}), fn: "main"}
		i.sched = &scheduler{i: i, gs: []*gor{main}, cur: main, mutexes: map[*value]*vmutex{}, maxPts: 400, maxPreempt: i.cfg.MaxPreempt}
	}
	return i.sched
}

// teardown ends every carrier goroutine of the current path.
func (i *interpreter) teardownSched() {
	s := i.sched
	if s == nil {
		return
	}
	s.dying = true
	for _, g := range s.gs {
		if g.id != 0 && g.state != gDone {
			g.state = gDone
			select {
			case g.resume <- struct{}{}:
			default:
				// the carrier is not parked (it is the one tearing down, or has finished)
			}
		}
	}
	i.sched = nil
}

func (s *scheduler) runnable() []*gor {
	var out []*gor
	for _, g := range s.gs {
		if g.state == gRunnable {
			out = append(out, g)
		}
	}
	return out
}

// schedule is called by the current goroutine at a scheduling point. It
// returns when the current goroutine is chosen to run again.
func (s *scheduler) schedule() {
	i := s.i
	s.points++
	if s.points > s.maxPts {
		panic(boundExceeded{fmt.Sprintf("more than %d scheduling points on one path", s.maxPts)})
	}
	me := s.cur
	for {
		rs := s.runnable()
		if len(rs) == 0 {
			// nobody can run: a goroutine waiting for quiescence is released
			var q *gor
			for _, g := range s.gs {
				if g.state == gQuiescing {
					q = g
				}
			}
			if q != nil {
				q.state = gRunnable
				continue
			}
			panic(targetPanic{iface{types.Typ[types.String], "all goroutines are asleep - deadlock!"}})
		}
		var next *gor
		if len(rs) == 1 {
			next = rs[0]
		} else if me.state == gRunnable && s.preempt >= s.maxPreempt {
			next = me // preemption budget used up: keep running
		} else {
			v := i.sym.fresh("sched", 8)
			i.sym.assume(i.sym.tt.bvcmp(opBvUlt, v, i.sym.tt.bv(uint64(len(rs)), 8)))
			next = rs[int(i.sym.concretise(v))]
		}
		if next == me {
			return
		}
		if me.state == gRunnable {
			s.preempt++
		}
		s.switchTo(me, next)
		if me.state == gRunnable && s.cur == me {
			return
		}
	}
}

// switchTo parks the carrier of `me` and resumes `next`.
func (s *scheduler) switchTo(me, next *gor) {
	i := s.i
	me.stack, me.arena, me.sp = i.stack, i.arena, i.sp
	s.cur = next
	i.stack, i.arena, i.sp = next.stack, next.arena, next.sp
	next.resume <- struct{}{}
	<-me.resume
	if s.dying || i.sched != s {
		panic(pathAbort{"path ended"})
	}
	if me.id == 0 && s.fatal != nil {
		f := s.fatal
		s.fatal = nil
		panic(f)
	}
	i.stack, i.arena, i.sp = me.stack, me.arena, me.sp
	s.cur = me
}

// block parks the current goroutine until another one makes it runnable.
func (s *scheduler) block(what string) {
	me := s.cur
	me.state = gBlocked
	me.what = what
	s.schedule()
}

func (i *interpreter) spawn(fr *frame, fn value, args []value) {
	i.bailIfSpeculating("synchronisation")
	s := i.ensureSched()
	g := &gor{id: len(s.gs), state: gRunnable, resume: make(chan struct{})}
	switch f := fn.(type) {
	case *ssa.Function:
		g.fn = f.String()
	case *closure:
		g.fn = f.Fn.String()
	}
	s.gs = append(s.gs, g)
	go func() {
		<-g.resume
		if s.dying || i.sched != s {
			return
		}
		defer func() {
			r := recover()
			g.state = gDone
			if s.dying || i.sched != s {
				return
			}
			if r != nil {
				if _, ok := r.(pathAbort); ok && s.dying {
					return
				}
				// everything that ends a path is raised in the main goroutine
				if tp, ok := r.(targetPanic); ok {
					r = targetPanic{iface{types.Typ[types.String], "panic in goroutine " + g.fn + ": " + renderPanic(i, tp)}}
				}
				s.fatal = r
				main := s.gs[0]
				main.state = gRunnable
				s.cur = main
				i.stack, i.arena, i.sp = main.stack, main.arena, main.sp
				main.resume <- struct{}{}
				return
			}
			// normal exit: hand control to somebody else
			func() {
				defer func() {
					if r2 := recover(); r2 != nil {
						if s.dying || i.sched != s {
							return
						}
						s.fatal = r2
						main := s.gs[0]
						main.state = gRunnable
						s.cur = main
						i.stack, i.arena, i.sp = main.stack, main.arena, main.sp
						main.resume <- struct{}{}
					}
				}()
				s.exitCurrent(g)
			}()
		}()
		i.stack, i.arena, i.sp = nil, nil, 0
		call(i, nil, 0, fn, args)
	}()
	s.schedule()
}

// exitCurrent picks a successor for a goroutine that has finished.
func (s *scheduler) exitCurrent(g *gor) {
	i := s.i
	for {
		rs := s.runnable()
		if len(rs) == 0 {
			var q *gor
			for _, x := range s.gs {
				if x.state == gQuiescing {
					q = x
				}
			}
			if q != nil {
				q.state = gRunnable
				continue
			}
			panic(targetPanic{iface{types.Typ[types.String], "all goroutines are asleep - deadlock!"}})
		}
		var next *gor
		if len(rs) == 1 {
			next = rs[0]
		} else {
			v := i.sym.fresh("sched", 8)
			i.sym.assume(i.sym.tt.bvcmp(opBvUlt, v, i.sym.tt.bv(uint64(len(rs)), 8)))
			next = rs[int(i.sym.concretise(v))]
		}
		s.cur = next
		i.stack, i.arena, i.sp = next.stack, next.arena, next.sp
		next.resume <- struct{}{}
		return
	}
}

// ---- channels

func (i *interpreter) makeChan(n int, elem types.Type) *vchan {
	return &vchan{cap: n, elem: elem}
}

type chanQueues struct {
	senders   []*waiter
	receivers []*waiter
}

func (i *interpreter) queues(c *vchan) *chanQueues {
	qs, _ := i.natState["chanq"].(map[*vchan]*chanQueues)
	if qs == nil {
		qs = map[*vchan]*chanQueues{}
		i.natState["chanq"] = qs
	}
	q := qs[c]
	if q == nil {
		q = &chanQueues{}
		qs[c] = q
	}
	return q
}

func popWaiter(ws *[]*waiter) *waiter {
	for len(*ws) > 0 {
		w := (*ws)[0]
		*ws = (*ws)[1:]
		if w.sel != nil {
			if w.sel.done {
				continue
			}
			w.sel.done = true
		}
		return w
	}
	return nil
}

func (i *interpreter) trySend(c *vchan, v value) bool {
	q := i.queues(c)
	if w := popWaiter(&q.receivers); w != nil {
		w.g.recvVal, w.g.recvOk, w.g.selIndex = v, true, w.selIdx
		w.g.state = gRunnable
		return true
	}
	if len(c.buf) < c.cap {
		c.buf = append(c.buf, v)
		return true
	}
	return false
}

func (i *interpreter) tryRecv(c *vchan) (value, bool, bool) {
	q := i.queues(c)
	if len(c.buf) > 0 {
		v := c.buf[0]
		c.buf = c.buf[1:]
		if w := popWaiter(&q.senders); w != nil {
			c.buf = append(c.buf, w.val)
			w.g.selIndex = w.selIdx
			w.g.state = gRunnable
		}
		return v, true, true
	}
	if w := popWaiter(&q.senders); w != nil {
		w.g.selIndex = w.selIdx
		w.g.state = gRunnable
		return w.val, true, true
	}
	if c.closed {
		return zero(c.elem), false, true
	}
	return nil, false, false
}

func (i *interpreter) chanSend(fr *frame, c *vchan, v value) {
	i.bailIfSpeculating("synchronisation")
	if c == nil {
		if i.sched == nil {
			panic(engineTrap{msg: "send on nil channel blocks forever"})
		}
		i.sched.block("send on nil channel")
		return
	}
	if c.closed {
		panic(targetPanic{iface{types.Typ[types.String], "send on closed channel"}})
	}
	if i.trySend(c, v) {
		if i.sched != nil {
			i.sched.schedule()
		}
		return
	}
	if i.sched == nil {
		panic(engineTrap{msg: "blocking channel send outside the cooperative scheduler"})
	}
	q := i.queues(c)
	q.senders = append(q.senders, &waiter{g: i.sched.cur, val: v, selIdx: -1})
	i.sched.block("chan send")
	if c.closed && i.sched.cur.selIndex == -2 {
		panic(targetPanic{iface{types.Typ[types.String], "send on closed channel"}})
	}
}

func (i *interpreter) chanRecv(fr *frame, instr *ssa.UnOp, c *vchan) value {
	i.bailIfSpeculating("synchronisation")
	var v value
	ok := false
	if c == nil {
		if i.sched == nil {
			panic(engineTrap{msg: "receive from nil channel blocks forever"})
		}
		i.sched.block("receive from nil channel")
	} else if rv, rok, ready := i.tryRecv(c); ready {
		v, ok = rv, rok
		if i.sched != nil {
			i.sched.schedule()
		}
	} else {
		if i.sched == nil {
			panic(engineTrap{msg: "blocking channel receive outside the cooperative scheduler"})
		}
		q := i.queues(c)
		me := i.sched.cur
		q.receivers = append(q.receivers, &waiter{g: me, selIdx: -1})
		i.sched.block("chan receive")
		v, ok = me.recvVal, me.recvOk
		if !ok {
			v = zero(c.elem)
		}
	}
	if instr.CommaOk {
		return tuple{v, ok}
	}
	return v
}

func (i *interpreter) chanClose(fr *frame, c *vchan) {
	i.bailIfSpeculating("synchronisation")
	if c == nil {
		panic(targetPanic{iface{types.Typ[types.String], "close of nil channel"}})
	}
	if c.closed {
		panic(targetPanic{iface{types.Typ[types.String], "close of closed channel"}})
	}
	c.closed = true
	q := i.queues(c)
	for {
		w := popWaiter(&q.receivers)
		if w == nil {
			break
		}
		w.g.recvVal, w.g.recvOk, w.g.selIndex = nil, false, w.selIdx
		w.g.state = gRunnable
	}
	for {
		w := popWaiter(&q.senders)
		if w == nil {
			break
		}
		w.g.selIndex = -2 // woken by close: the send panics
		w.g.state = gRunnable
	}
	if i.sched != nil {
		i.sched.schedule()
	}
}

func (i *interpreter) selectStmt(fr *frame, instr *ssa.Select, ci *cinstr) value {
	i.bailIfSpeculating("synchronisation")
	type cs struct {
		c    *vchan
		send bool
		val  value
	}
	cases := make([]cs, len(instr.States))
	for k, st := range instr.States {
		c, _ := fr.get(ci.args[2*k]).(*vchan)
		cases[k] = cs{c: c, send: st.Dir == types.SendOnly}
		if cases[k].send {
			cases[k].val = fr.get(ci.args[2*k+1])
		}
	}
	// which cases are ready now?
	ready := func(k int) bool {
		c := cases[k].c
		if c == nil {
			return false
		}
		q := i.queues(c)
		if cases[k].send {
			if c.closed {
				return true // will panic
			}
			for _, w := range q.receivers {
				if w.sel == nil || !w.sel.done {
					return true
				}
			}
			return len(c.buf) < c.cap
		}
		if len(c.buf) > 0 || c.closed {
			return true
		}
		for _, w := range q.senders {
			if w.sel == nil || !w.sel.done {
				return true
			}
		}
		return false
	}
	var rs []int
	for k := range cases {
		if ready(k) {
			rs = append(rs, k)
		}
	}
	chosen := -1
	var recvVal value
	recvOk := false
	fire := func(k int) {
		chosen = k
		if cases[k].send {
			if cases[k].c.closed {
				panic(targetPanic{iface{types.Typ[types.String], "send on closed channel"}})
			}
			if !i.trySend(cases[k].c, cases[k].val) {
				panic("select: send case was ready but could not fire")
			}
		} else {
			v, ok, r := i.tryRecv(cases[k].c)
			if !r {
				panic("select: receive case was ready but could not fire")
			}
			recvVal, recvOk = v, ok
		}
	}
	switch {
	case len(rs) == 1:
		fire(rs[0])
	case len(rs) > 1:
		// Go picks uniformly among the ready cases: a symbolic choice
		v := i.sym.fresh("select", 8)
		i.sym.assume(i.sym.tt.bvcmp(opBvUlt, v, i.sym.tt.bv(uint64(len(rs)), 8)))
		fire(rs[int(i.sym.concretise(v))])
	case !instr.Blocking:
		// default case
	default:
		if i.sched == nil {
			panic(engineTrap{msg: "blocking select outside the cooperative scheduler"})
		}
		me := i.sched.cur
		park := &selectPark{}
		for k, c := range cases {
			if c.c == nil {
				continue
			}
			q := i.queues(c.c)
			if c.send {
				q.senders = append(q.senders, &waiter{g: me, val: c.val, selIdx: k, sel: park})
			} else {
				q.receivers = append(q.receivers, &waiter{g: me, selIdx: k, sel: park})
			}
		}
		me.selIndex = -1
		i.sched.block("select")
		chosen = me.selIndex
		if chosen == -2 {
			panic(targetPanic{iface{types.Typ[types.String], "send on closed channel"}})
		}
		if chosen >= 0 && !cases[chosen].send {
			recvVal, recvOk = me.recvVal, me.recvOk
			if !recvOk {
				recvVal = zero(cases[chosen].c.elem)
			}
		}
	}
	if chosen >= 0 && i.sched != nil && len(rs) > 0 {
		i.sched.schedule()
	}
	r := tuple{chosen, recvOk}
	for k, st := range instr.States {
		if st.Dir == types.RecvOnly {
			if k == chosen {
				r = append(r, recvVal)
			} else {
				r = append(r, zero(st.Chan.Type().Underlying().(*types.Chan).Elem()))
			}
		}
	}
	return r
}

// ---- mutexes under the scheduler

func (i *interpreter) mutexLock(p *value) {
	i.bailIfSpeculating("synchronisation")
	s := i.sched
	if s == nil {
		return
	}
	m := s.mutexes[p]
	if m == nil {
		m = &vmutex{}
		s.mutexes[p] = m
	}
	s.schedule()
	for m.held {
		m.waiters = append(m.waiters, s.cur)
		s.block("mutex")
	}
	m.held = true
}

func (i *interpreter) mutexUnlock(p *value) {
	i.bailIfSpeculating("synchronisation")
	s := i.sched
	if s == nil {
		return
	}
	m := s.mutexes[p]
	if m == nil || !m.held {
		panic(targetPanic{iface{types.Typ[types.String], "sync: unlock of unlocked mutex"}})
	}
	m.held = false
	for _, g := range m.waiters {
		g.state = gRunnable
	}
	m.waiters = nil
	s.schedule()
}

// quiesce lets every other goroutine run until all of them are blocked or done.
func (i *interpreter) quiesce() {
	s := i.sched
	if s == nil {
		return
	}
	me := s.cur
	others := false
	for _, g := range s.gs {
		if g != me && g.state == gRunnable {
			others = true
		}
	}
	if !others {
		return
	}
	me.state = gQuiescing
	s.schedule()
}

// alive counts goroutines other than the current one that have not finished.
func (i *interpreter) alive() int {
	s := i.sched
	if s == nil {
		return 0
	}
	n := 0
	for _, g := range s.gs {
		if g != s.cur && g.state != gDone {
			n++
		}
	}
	return n
}
