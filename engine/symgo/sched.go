package symgo

// Goroutines and channels. Without the cooperative scheduler (sched == nil)
// only non-blocking channel operations are supported; anything that would
// block or spawn traps.

import (
	"go/types"

	"golang.org/x/tools/go/ssa"
)

type goroutineSwitch struct{}

type scheduler struct{}

func (i *interpreter) makeChan(n int, elem types.Type) *vchan {
	return &vchan{cap: n, elem: elem}
}

func (i *interpreter) spawn(fr *frame, fn value, args []value) {
	panic(engineTrap{msg: "go statement outside the cooperative scheduler"})
}

func (i *interpreter) chanSend(fr *frame, c *vchan, v value) {
	if c == nil {
		panic(engineTrap{msg: "send on nil channel blocks forever"})
	}
	if c.closed {
		panic(targetPanic{iface{types.Typ[types.String], "send on closed channel"}})
	}
	if len(c.buf) < c.cap {
		c.buf = append(c.buf, v)
		return
	}
	panic(engineTrap{msg: "blocking channel send outside the cooperative scheduler"})
}

func (i *interpreter) chanRecv(fr *frame, instr *ssa.UnOp, c *vchan) value {
	if c == nil {
		panic(engineTrap{msg: "receive from nil channel blocks forever"})
	}
	var v value
	ok := false
	switch {
	case len(c.buf) > 0:
		v, ok = c.buf[0], true
		c.buf = c.buf[1:]
	case c.closed:
		v = zero(c.elem)
	default:
		panic(engineTrap{msg: "blocking channel receive outside the cooperative scheduler"})
	}
	if instr.CommaOk {
		return tuple{v, ok}
	}
	return v
}

func (i *interpreter) chanClose(fr *frame, c *vchan) {
	if c == nil {
		panic(targetPanic{iface{types.Typ[types.String], "close of nil channel"}})
	}
	if c.closed {
		panic(targetPanic{iface{types.Typ[types.String], "close of closed channel"}})
	}
	c.closed = true
}

func (i *interpreter) selectStmt(fr *frame, instr *ssa.Select, ci *cinstr) value {
	// non-blocking evaluation in source order
	r := tuple{-1, false}
	chosen := -1
	var recvVal value
	recvOk := false
	for k, st := range instr.States {
		c, _ := fr.get(ci.args[2*k]).(*vchan)
		if c == nil {
			continue
		}
		if st.Dir == types.RecvOnly {
			if len(c.buf) > 0 {
				chosen, recvVal, recvOk = k, c.buf[0], true
				c.buf = c.buf[1:]
				break
			}
			if c.closed {
				chosen, recvVal = k, zero(c.elem)
				break
			}
		} else {
			if c.closed {
				panic(targetPanic{iface{types.Typ[types.String], "send on closed channel"}})
			}
			if len(c.buf) < c.cap {
				c.buf = append(c.buf, fr.get(ci.args[2*k+1]))
				chosen = k
				break
			}
		}
	}
	if chosen < 0 && instr.Blocking {
		panic(engineTrap{msg: "blocking select outside the cooperative scheduler"})
	}
	r[0], r[1] = chosen, recvOk
	for k, st := range instr.States {
		if st.Dir == types.RecvOnly {
			if k == chosen {
				r = append(r, recvVal)
			} else {
				r = append(r, zero(st.Chan.Type().Underlying().(*types.Chan).Elem()))
			}
		}
	}
	return r
}

// tryIfConvert: if-conversion of pure triangles/diamonds (not yet enabled).
func (fr *frame) tryIfConvert(ci *cinstr, c symBool) bool { return false }
