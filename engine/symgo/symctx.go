package symgo

// Per-worker symbolic context: path condition, event vector, model cache.
//
// A path is identified by its vector of *events*: every symbolic branch,
// concretisation candidate and assumption, in execution order. Each event owns
// one solver scope (push + assert literal), so the solver stack of a worker is
// always a prefix of the event vector of the path it runs, and consecutive
// paths reuse the common prefix.

import (
	"fmt"
	"strings"
)

type evKind uint8

const (
	evBranch evKind = iota // taken = condition side
	evValue                // concretisation candidate: taken means operand == val
	evAssume               // assumption (taken is always true)
)

type event struct {
	kind  evKind
	taken bool
	val   uint64
}

func (d event) String() string {
	switch d.kind {
	case evBranch:
		if d.taken {
			return "T"
		}
		return "F"
	case evAssume:
		return "a"
	}
	if d.taken {
		return fmt.Sprintf("=%d", d.val)
	}
	return fmt.Sprintf("!%d", d.val)
}

func eventsString(es []event) string {
	var b strings.Builder
	for _, e := range es {
		b.WriteString(e.String())
	}
	return b.String()
}

// TwinLabel, if set, turns every assertion with this label into assert(false)
// (self-test: the label must be reported as violated and replay natively).
var TwinLabel string

// pathAbort unwinds the interpreter to the explorer: the path ends here.
type pathAbort struct{ why string }

// boundExceeded marks the run inconclusive.
type boundExceeded struct{ why string }

type noteRec struct {
	key  string
	vals []value
}

// Violation is one failed assertion with the solver's model.
type Violation struct {
	Property string            `json:"property"`
	Label    string            `json:"label"`
	Disc     string            `json:"discriminator"`
	Model    map[string]uint64 `json:"model"`
	Events   string            `json:"events"`
	Notes    []string          `json:"notes"`
	Replay   string            `json:"replay,omitempty"`
	Status   string            `json:"status,omitempty"` // reproduced | not-reproduced | known
}

// PathSample is one explored path written out (for evidence and validation).
type PathSample struct {
	Events  string            `json:"events"`
	Model   map[string]uint64 `json:"model"`
	Notes   []string          `json:"notes"`
	Asserts []string          `json:"asserts_reached"`
	Covers  []string          `json:"covers"`
	Panic   string            `json:"panic,omitempty"`
}

type symCtx struct {
	tt  *termTable
	slv *solver

	// current path
	events  []event // events to follow, then events taken
	forced  int     // len of the given prefix
	pos     int     // index of the next event
	kept    int     // events [0,kept) still have their scope on the solver stack
	lits    []*term // literal per event
	litSet  map[int]bool
	model   map[string]uint64
	vars    []*term
	varSeq  map[string]int
	notes   []noteRec
	covers  map[string]int
	asserts map[string]int
	disc    string
	pending [][]event // alternatives discovered on this path
	viol    []Violation
	steps   int64

	slvEvents []event // events whose scopes are on the solver stack

	valueCap int
	noFork   bool // a speculation is active: events must not be created

	// solver diff: a seeded sample of assertion queries as stand-alone scripts
	diffSeed int64
	diffWant int
	diffs    []DiffQuery

	// statistics
	Paths       int64
	Decisions   int64
	ModelHits   int64
	Concretised int64
	Aborted     int64
}

func newSymCtx(solverBin string, timeoutMs int, epoch int) *symCtx {
	return &symCtx{tt: newTermTable(), slv: newSolver(solverBin, timeoutMs, epoch), litSet: map[int]bool{}, valueCap: 64}
}

func (s *symCtx) beginPath(prefix []event) {
	s.events = append(s.events[:0], prefix...)
	s.forced = len(prefix)
	s.pos = 0
	s.model = nil
	s.vars = s.vars[:0]
	s.varSeq = map[string]int{}
	s.notes = nil
	s.covers = map[string]int{}
	s.asserts = map[string]int{}
	s.disc = ""
	s.pending = s.pending[:0]
	s.steps = 0
	s.Paths++
	common := 0
	for common < len(s.slvEvents) && common < len(prefix) && s.slvEvents[common] == prefix[common] {
		common++
	}
	s.slv.popTo(common)
	s.slvEvents = s.slvEvents[:common]
	s.kept = common
	for k := range s.litSet {
		delete(s.litSet, k)
	}
	s.lits = s.lits[:0]
}

func (s *symCtx) fresh(name string, bits int) *term {
	if s.noFork {
		panic(specBail{"fresh variable"})
	}
	name = sanitize(name)
	s.varSeq[name]++
	v := s.tt.variable(fmt.Sprintf("%s!%d", name, s.varSeq[name]), bits)
	s.vars = append(s.vars, v)
	return v
}

func sanitize(n string) string {
	var b strings.Builder
	for _, r := range n {
		switch {
		case r >= 'a' && r <= 'z', r >= 'A' && r <= 'Z', r >= '0' && r <= '9', r == '_', r == '.':
			b.WriteRune(r)
		default:
			b.WriteByte('_')
		}
	}
	if b.Len() == 0 {
		return "v"
	}
	return b.String()
}

// ensureModel makes s.model a model of the current path condition.
func (s *symCtx) ensureModel() {
	if s.model != nil {
		return
	}
	ok, m := s.slv.checkWithModel(nil, s.vars)
	if !ok {
		// the path condition is satisfiable by construction
		panic(solverTrouble{"path condition became unsatisfiable: " + eventsString(s.events[:s.pos])})
	}
	s.validateModel(m, nil)
	s.model = m
}

// validateModel re-checks a model the solver returned against the path condition (and extra)
// with the engine's own evaluator. A solver process under memory pressure has been seen to
// return values that violate asserted constraints; such an answer is solver trouble (the path
// is run again on a fresh solver), never a verdict.
func (s *symCtx) validateModel(m map[string]uint64, extra *term) {
	memo := map[int]uint64{}
	for _, l := range s.lits {
		if l.eval(m, memo) == 0 {
			panic(solverTrouble{"the solver returned a model that does not satisfy the path condition"})
		}
	}
	if extra != nil && extra.eval(m, memo) == 0 {
		panic(solverTrouble{"the solver returned a model that does not satisfy the query"})
	}
}

func (s *symCtx) evalBool(t *term) bool {
	return t.eval(s.model, map[int]uint64{}) != 0
}

// record appends/follows an event and puts its literal on the solver stack.
func (s *symCtx) record(e event, lit *term) {
	if s.pos < s.forced {
		if s.events[s.pos] != e {
			panic(fmt.Sprintf("engine: non-deterministic re-execution at event %d: recorded %v, now %v (%s)", s.pos, s.events[s.pos], e, eventsString(s.events[:s.forced])))
		}
	} else {
		s.events = append(s.events, e)
	}
	if s.pos >= s.kept {
		s.slv.push()
		s.slv.assert(lit)
		s.slvEvents = append(s.slvEvents, e)
	}
	s.pos++
	s.lits = append(s.lits, lit)
	s.litSet[lit.id] = true
}

// known reports whether c is decided syntactically by the path condition.
func (s *symCtx) known(c *term) (val, ok bool) {
	if c.isConst() {
		return c.val != 0, true
	}
	if s.litSet[c.id] {
		return true, true
	}
	if s.litSet[s.tt.not(c).id] {
		return false, true
	}
	return false, false
}

// decide picks a side of a symbolic condition, forking if both are feasible.
func (s *symCtx) decide(c *term) bool {
	if v, ok := s.known(c); ok {
		return v
	}
	if s.noFork {
		panic(specBail{"fork"})
	}
	nc := s.tt.not(c)
	if s.pos < s.forced {
		e := s.events[s.pos]
		if e.kind != evBranch {
			panic(fmt.Sprintf("engine: non-deterministic re-execution at event %d: expected branch, recorded %v", s.pos, e))
		}
		if e.taken {
			s.record(e, c)
		} else {
			s.record(e, nc)
		}
		return e.taken
	}
	s.Decisions++
	s.ensureModel()
	side := s.evalBool(c)
	s.ModelHits++
	other := nc
	if !side {
		other = c
	}
	if s.slv.checkWith(other) {
		alt := make([]event, s.pos+1)
		copy(alt, s.events[:s.pos])
		alt[s.pos] = event{kind: evBranch, taken: !side}
		s.pending = append(s.pending, alt)
	}
	if side {
		s.record(event{kind: evBranch, taken: true}, c)
	} else {
		s.record(event{kind: evBranch, taken: false}, nc)
	}
	return side
}

// concretise enumerates the feasible values of x, forking once per value.
func (s *symCtx) concretise(x *term) uint64 {
	if x.isConst() {
		return x.val
	}
	if s.noFork {
		panic(specBail{"concretisation"})
	}
	s.Concretised++
	for n := 0; ; n++ {
		if n > s.valueCap {
			panic(boundExceeded{fmt.Sprintf("more than %d feasible values at a concretisation point", s.valueCap)})
		}
		if s.pos < s.forced {
			e := s.events[s.pos]
			if e.kind != evValue {
				panic(fmt.Sprintf("engine: non-deterministic re-execution at event %d: expected value, recorded %v", s.pos, e))
			}
			eq := s.tt.eq(x, s.tt.bv(e.val, x.bits))
			if e.taken {
				s.record(e, eq)
				return e.val
			}
			s.record(e, s.tt.not(eq))
			continue
		}
		s.ensureModel()
		v := x.eval(s.model, map[int]uint64{})
		eq := s.tt.eq(x, s.tt.bv(v, x.bits))
		if eq.isTrue() {
			return v
		}
		if s.slv.checkWith(s.tt.not(eq)) {
			alt := make([]event, s.pos+1)
			copy(alt, s.events[:s.pos])
			alt[s.pos] = event{kind: evValue, taken: false, val: v}
			s.pending = append(s.pending, alt)
		}
		s.record(event{kind: evValue, taken: true, val: v}, eq)
		return v
	}
}

// assume restricts the path; an infeasible assumption ends it.
func (s *symCtx) assume(c *term) {
	if s.noFork {
		panic(specBail{"assume"})
	}
	if v, ok := s.known(c); ok {
		if !v {
			s.Aborted++
			panic(pathAbort{"assume false"})
		}
		return
	}
	e := event{kind: evAssume, taken: true}
	if s.pos < s.forced {
		s.record(e, c)
		return
	}
	if s.model != nil && s.evalBool(c) {
		s.record(e, c)
		return
	}
	ok, m := s.slv.checkWithModel(c, s.vars)
	if !ok {
		s.Aborted++
		panic(pathAbort{"assume infeasible"})
	}
	s.validateModel(m, c)
	s.model = m
	s.record(e, c)
}

// assert checks c on the current path; on failure the violation is recorded
// and the path continues under c.
func (s *symCtx) assert(c *term, prop, label string) {
	if s.noFork {
		panic(specBail{"assert"})
	}
	if TwinLabel != "" && label == TwinLabel {
		c = s.tt.fls // reachability twin: this assertion must come back violated
	}
	s.asserts[label]++
	if v, ok := s.known(c); ok {
		if !v {
			s.ensureModel()
			s.addViolation(prop, label, s.model)
			s.Aborted++
			panic(pathAbort{"assertion false on every continuation"})
		}
		return
	}
	if s.pos < s.forced {
		// already checked by the path this prefix was forked from
		s.record(event{kind: evAssume, taken: true}, c)
		return
	}
	bad, m := s.slv.checkWithModel(s.tt.not(c), s.vars)
	if s.diffWant > 0 {
		s.sampleDiff(c, bad)
	}
	if bad {
		s.validateModel(m, s.tt.not(c))
		s.addViolation(prop, label, m)
		s.assume(c)
		return
	}
	// c is implied by the path condition: recording it keeps the model valid
	s.record(event{kind: evAssume, taken: true}, c)
}

func (s *symCtx) addViolation(prop, label string, m map[string]uint64) {
	v := Violation{Property: prop, Label: label, Disc: s.disc, Model: m, Events: eventsString(s.events[:s.pos])}
	v.Notes = s.renderNotes(m)
	s.viol = append(s.viol, v)
}

func (s *symCtx) renderNotes(m map[string]uint64) []string {
	var out []string
	memo := map[int]uint64{}
	for _, n := range s.notes {
		var b strings.Builder
		b.WriteString(n.key)
		for _, v := range n.vals {
			b.WriteByte(' ')
			b.WriteString(renderUnder(v, m, memo))
		}
		out = append(out, b.String())
	}
	return out
}

// DiffQuery is one assertion query written out for a second solver.
type DiffQuery struct {
	Script string `json:"script"`
	Expect string `json:"expect"`
	h      uint64
}

func (s *symCtx) sampleDiff(c *term, bad bool) {
	h := hashEvents(s.diffSeed, fmt.Sprintf("%s|%d", eventsString(s.events[:s.pos]), c.id))
	if len(s.diffs) >= s.diffWant && h >= s.diffs[len(s.diffs)-1].h {
		return
	}
	var b strings.Builder
	var vs []*term
	seen := map[int]bool{}
	for _, l := range s.lits {
		l.vars(seen, &vs)
	}
	c.vars(seen, &vs)
	for _, v := range vs {
		fmt.Fprintf(&b, "(declare-const %s %s)\n", quoteSym(v.name), sortName(v.bits))
	}
	for _, l := range s.lits {
		fmt.Fprintf(&b, "(assert %s)\n", quoteSyms(l.full()))
	}
	fmt.Fprintf(&b, "(assert (not %s))\n(check-sat)\n", quoteSyms(c.full()))
	exp := "unsat"
	if bad {
		exp = "sat"
	}
	s.diffs = append(s.diffs, DiffQuery{Script: b.String(), Expect: exp, h: h})
	for k := len(s.diffs) - 1; k > 0 && s.diffs[k].h < s.diffs[k-1].h; k-- {
		s.diffs[k], s.diffs[k-1] = s.diffs[k-1], s.diffs[k]
	}
	if len(s.diffs) > s.diffWant {
		s.diffs = s.diffs[:s.diffWant]
	}
}

// variable names contain '!' and '.', legal in SMT-LIB simple symbols
func quoteSym(n string) string  { return n }
func quoteSyms(t string) string { return t }
