package symgo

// SMT terms: hash-consed bit-vector / Bool expressions with light
// simplification. One termTable per worker (not shared between goroutines).

import (
	"fmt"
	"math/bits"
	"strings"
)

type opcode uint8

const (
	opConst opcode = iota // bit-vector or bool literal (val)
	opVar                 // declared constant (name)
	opNot
	opAnd
	opOr
	opEq
	opIte
	opBvAdd
	opBvSub
	opBvMul
	opBvSDiv
	opBvUDiv
	opBvSRem
	opBvURem
	opBvAnd
	opBvOr
	opBvXor
	opBvNot
	opBvNeg
	opBvShl
	opBvLshr
	opBvAshr
	opBvSlt
	opBvSle
	opBvUlt
	opBvUle
	opSignExt // val = extra bits
	opZeroExt // val = extra bits
	opExtract // val = hi (lo is always 0)
)

var opNames = [...]string{
	opNot: "not", opAnd: "and", opOr: "or", opEq: "=", opIte: "ite",
	opBvAdd: "bvadd", opBvSub: "bvsub", opBvMul: "bvmul", opBvSDiv: "bvsdiv", opBvUDiv: "bvudiv",
	opBvSRem: "bvsrem", opBvURem: "bvurem", opBvAnd: "bvand", opBvOr: "bvor", opBvXor: "bvxor",
	opBvNot: "bvnot", opBvNeg: "bvneg", opBvShl: "bvshl", opBvLshr: "bvlshr", opBvAshr: "bvashr",
	opBvSlt: "bvslt", opBvSle: "bvsle", opBvUlt: "bvult", opBvUle: "bvule",
}

// term is an immutable node. bits==0 means sort Bool.
type term struct {
	op    opcode
	bits  int
	val   uint64
	name  string
	args  []*term
	id    int
	size  int // number of nodes in tree form (saturating)
	epoch int // solver epoch in which a define-fun for this node was emitted
}

type termTable struct {
	tab    map[string]*term
	nextID int
	tru    *term
	fls    *term
}

func newTermTable() *termTable {
	tt := &termTable{tab: map[string]*term{}}
	tt.tru = tt.mk(&term{op: opConst, bits: 0, val: 1})
	tt.fls = tt.mk(&term{op: opConst, bits: 0, val: 0})
	return tt
}

func (tt *termTable) mk(t *term) *term {
	var kb strings.Builder
	fmt.Fprintf(&kb, "%d:%d:%d:%s", t.op, t.bits, t.val, t.name)
	for _, a := range t.args {
		fmt.Fprintf(&kb, ",%d", a.id)
	}
	k := kb.String()
	if old, ok := tt.tab[k]; ok {
		return old
	}
	tt.nextID++
	t.id = tt.nextID
	t.size = 1
	for _, a := range t.args {
		t.size += a.size
		if t.size > 1<<30 {
			t.size = 1 << 30
		}
	}
	tt.tab[k] = t
	return t
}

func mask(b int) uint64 {
	if b >= 64 {
		return ^uint64(0)
	}
	return (uint64(1) << uint(b)) - 1
}

func (tt *termTable) bv(v uint64, b int) *term {
	return tt.mk(&term{op: opConst, bits: b, val: v & mask(b)})
}
func (tt *termTable) boolc(b bool) *term {
	if b {
		return tt.tru
	}
	return tt.fls
}
func (tt *termTable) variable(name string, b int) *term {
	return tt.mk(&term{op: opVar, bits: b, name: name})
}

func (t *term) isConst() bool { return t.op == opConst }
func (t *term) isTrue() bool  { return t.op == opConst && t.bits == 0 && t.val == 1 }
func (t *term) isFalse() bool { return t.op == opConst && t.bits == 0 && t.val == 0 }

func sext(v uint64, b int) int64 {
	if b >= 64 {
		return int64(v)
	}
	sh := uint(64 - b)
	return int64(v<<sh) >> sh
}

func (tt *termTable) not(a *term) *term {
	if a.isConst() {
		return tt.boolc(a.val == 0)
	}
	if a.op == opNot {
		return a.args[0]
	}
	return tt.mk(&term{op: opNot, args: []*term{a}})
}

func (tt *termTable) and(xs ...*term) *term {
	var out []*term
	seen := map[int]bool{}
	for _, x := range xs {
		if x.isFalse() {
			return tt.fls
		}
		if x.isTrue() || seen[x.id] {
			continue
		}
		if x.op == opAnd {
			for _, y := range x.args {
				if !seen[y.id] {
					seen[y.id] = true
					out = append(out, y)
				}
			}
			continue
		}
		seen[x.id] = true
		out = append(out, x)
	}
	for _, x := range out {
		if x.op == opNot && seen[x.args[0].id] {
			return tt.fls
		}
	}
	switch len(out) {
	case 0:
		return tt.tru
	case 1:
		return out[0]
	}
	return tt.mk(&term{op: opAnd, args: out})
}

func (tt *termTable) or(xs ...*term) *term {
	var out []*term
	seen := map[int]bool{}
	for _, x := range xs {
		if x.isTrue() {
			return tt.tru
		}
		if x.isFalse() || seen[x.id] {
			continue
		}
		if x.op == opOr {
			for _, y := range x.args {
				if !seen[y.id] {
					seen[y.id] = true
					out = append(out, y)
				}
			}
			continue
		}
		seen[x.id] = true
		out = append(out, x)
	}
	for _, x := range out {
		if x.op == opNot && seen[x.args[0].id] {
			return tt.tru
		}
	}
	switch len(out) {
	case 0:
		return tt.fls
	case 1:
		return out[0]
	}
	return tt.mk(&term{op: opOr, args: out})
}

func (tt *termTable) implies(a, b *term) *term { return tt.or(tt.not(a), b) }

func (tt *termTable) eq(a, b *term) *term {
	if a.bits != b.bits {
		panic(fmt.Sprintf("term.eq: width mismatch %d vs %d", a.bits, b.bits))
	}
	if a == b {
		return tt.tru
	}
	if a.isConst() && b.isConst() {
		return tt.boolc(a.val == b.val)
	}
	if a.bits == 0 {
		if a.isConst() {
			a, b = b, a
		}
		if b.isTrue() {
			return a
		}
		if b.isFalse() {
			return tt.not(a)
		}
	}
	// (= (ite c k1 k2) k) with constants folds to c / not c / false
	if a.isConst() {
		a, b = b, a
	}
	if a.op == opIte && b.isConst() && a.args[1].isConst() && a.args[2].isConst() {
		e1 := a.args[1].val == b.val
		e2 := a.args[2].val == b.val
		switch {
		case e1 && e2:
			return tt.tru
		case e1:
			return a.args[0]
		case e2:
			return tt.not(a.args[0])
		default:
			return tt.fls
		}
	}
	if a.id > b.id {
		a, b = b, a
	}
	return tt.mk(&term{op: opEq, args: []*term{a, b}})
}

func (tt *termTable) ite(c, a, b *term) *term {
	if a.bits != b.bits {
		panic("term.ite: width mismatch")
	}
	if c.isTrue() {
		return a
	}
	if c.isFalse() {
		return b
	}
	if a == b {
		return a
	}
	if a.bits == 0 {
		if a.isTrue() && b.isFalse() {
			return c
		}
		if a.isFalse() && b.isTrue() {
			return tt.not(c)
		}
		if a.isTrue() {
			return tt.or(c, b)
		}
		if a.isFalse() {
			return tt.and(tt.not(c), b)
		}
		if b.isTrue() {
			return tt.or(tt.not(c), a)
		}
		if b.isFalse() {
			return tt.and(c, a)
		}
	}
	if c.op == opNot {
		return tt.ite(c.args[0], b, a)
	}
	return tt.mk(&term{op: opIte, bits: a.bits, args: []*term{c, a, b}})
}

// binary bit-vector operator with constant folding.
func (tt *termTable) bvbin(op opcode, a, b *term) *term {
	if a.bits != b.bits {
		panic(fmt.Sprintf("term.bvbin %s: width mismatch %d vs %d", opNames[op], a.bits, b.bits))
	}
	w := a.bits
	if a.isConst() && b.isConst() {
		if v, ok := foldBin(op, a.val, b.val, w); ok {
			return tt.bv(v, w)
		}
	}
	switch op {
	case opBvAdd:
		if a.isConst() && a.val == 0 {
			return b
		}
		if b.isConst() && b.val == 0 {
			return a
		}
		// (x + k1) + k2
		if b.isConst() && a.op == opBvAdd && a.args[1].isConst() {
			return tt.bvbin(opBvAdd, a.args[0], tt.bv(a.args[1].val+b.val, w))
		}
		if a.isConst() {
			a, b = b, a
		}
	case opBvSub:
		if b.isConst() && b.val == 0 {
			return a
		}
		if a == b {
			return tt.bv(0, w)
		}
		if b.isConst() {
			return tt.bvbin(opBvAdd, a, tt.bv(-b.val, w))
		}
	case opBvMul:
		if a.isConst() {
			a, b = b, a
		}
		if b.isConst() && b.val == 1 {
			return a
		}
		if b.isConst() && b.val == 0 {
			return b
		}
	case opBvAnd, opBvOr, opBvXor:
		if a.isConst() {
			a, b = b, a
		}
	}
	return tt.mk(&term{op: op, bits: w, args: []*term{a, b}})
}

func foldBin(op opcode, x, y uint64, w int) (uint64, bool) {
	m := mask(w)
	sx, sy := sext(x, w), sext(y, w)
	switch op {
	case opBvAdd:
		return (x + y) & m, true
	case opBvSub:
		return (x - y) & m, true
	case opBvMul:
		return (x * y) & m, true
	case opBvAnd:
		return x & y, true
	case opBvOr:
		return x | y, true
	case opBvXor:
		return x ^ y, true
	case opBvSDiv:
		if y == 0 {
			return 0, false
		}
		if sx == -1<<63 && sy == -1 {
			return x, true
		}
		return uint64(sx/sy) & m, true
	case opBvUDiv:
		if y == 0 {
			return 0, false
		}
		return (x / y) & m, true
	case opBvSRem:
		if y == 0 {
			return 0, false
		}
		if sy == -1 {
			return 0, true
		}
		return uint64(sx%sy) & m, true
	case opBvURem:
		if y == 0 {
			return 0, false
		}
		return (x % y) & m, true
	case opBvShl:
		if y >= uint64(w) {
			return 0, true
		}
		return (x << y) & m, true
	case opBvLshr:
		if y >= uint64(w) {
			return 0, true
		}
		return (x >> y) & m, true
	case opBvAshr:
		if y >= uint64(w) {
			y = uint64(w - 1)
		}
		return uint64(sx>>y) & m, true
	}
	return 0, false
}

func (tt *termTable) bvun(op opcode, a *term) *term {
	if a.isConst() {
		switch op {
		case opBvNot:
			return tt.bv(^a.val, a.bits)
		case opBvNeg:
			return tt.bv(-a.val, a.bits)
		}
	}
	return tt.mk(&term{op: op, bits: a.bits, args: []*term{a}})
}

// comparison; op is one of opBvSlt, opBvSle, opBvUlt, opBvUle.
func (tt *termTable) bvcmp(op opcode, a, b *term) *term {
	if a.bits != b.bits {
		panic("term.bvcmp: width mismatch")
	}
	if a.isConst() && b.isConst() {
		w := a.bits
		switch op {
		case opBvSlt:
			return tt.boolc(sext(a.val, w) < sext(b.val, w))
		case opBvSle:
			return tt.boolc(sext(a.val, w) <= sext(b.val, w))
		case opBvUlt:
			return tt.boolc(a.val < b.val)
		case opBvUle:
			return tt.boolc(a.val <= b.val)
		}
	}
	if a == b {
		return tt.boolc(op == opBvSle || op == opBvUle)
	}
	return tt.mk(&term{op: op, args: []*term{a, b}})
}

func (tt *termTable) ext(signed bool, a *term, to int) *term {
	if to == a.bits {
		return a
	}
	if to < a.bits {
		return tt.extract(a, to)
	}
	if a.isConst() {
		if signed {
			return tt.bv(uint64(sext(a.val, a.bits)), to)
		}
		return tt.bv(a.val, to)
	}
	op := opZeroExt
	if signed {
		op = opSignExt
	}
	return tt.mk(&term{op: op, bits: to, val: uint64(to - a.bits), args: []*term{a}})
}

func (tt *termTable) extract(a *term, to int) *term {
	if to == a.bits {
		return a
	}
	if a.isConst() {
		return tt.bv(a.val, to)
	}
	if (a.op == opSignExt || a.op == opZeroExt) && a.args[0].bits >= to {
		return tt.extract(a.args[0], to)
	}
	return tt.mk(&term{op: opExtract, bits: to, val: uint64(to - 1), args: []*term{a}})
}

// ---- printing

func sortName(b int) string {
	if b == 0 {
		return "Bool"
	}
	return fmt.Sprintf("(_ BitVec %d)", b)
}

func constStr(t *term) string {
	if t.bits == 0 {
		if t.val != 0 {
			return "true"
		}
		return "false"
	}
	if t.bits%4 == 0 {
		return fmt.Sprintf("#x%0*x", t.bits/4, t.val)
	}
	return fmt.Sprintf("#b%0*b", t.bits, t.val)
}

const inlineLimit = 12

// ref returns the text by which t is referenced inside a larger term; big
// nodes are referenced by the name of their define-fun (see defs).
func (t *term) ref(epoch int) string {
	switch t.op {
	case opConst:
		return constStr(t)
	case opVar:
		return t.name
	}
	if t.size > inlineLimit {
		return fmt.Sprintf("t!%d", t.id)
	}
	return t.body(epoch)
}

func (t *term) body(epoch int) string {
	var b strings.Builder
	switch t.op {
	case opConst:
		return constStr(t)
	case opVar:
		return t.name
	case opSignExt:
		fmt.Fprintf(&b, "((_ sign_extend %d) %s)", t.val, t.args[0].ref(epoch))
	case opZeroExt:
		fmt.Fprintf(&b, "((_ zero_extend %d) %s)", t.val, t.args[0].ref(epoch))
	case opExtract:
		fmt.Fprintf(&b, "((_ extract %d 0) %s)", t.val, t.args[0].ref(epoch))
	default:
		b.WriteByte('(')
		b.WriteString(opNames[t.op])
		for _, a := range t.args {
			b.WriteByte(' ')
			b.WriteString(a.ref(epoch))
		}
		b.WriteByte(')')
	}
	return b.String()
}

// defs appends to out the define-fun commands needed so that t.ref() is
// meaningful to a solver in the given epoch.
func (t *term) defs(epoch int, out *strings.Builder) {
	if t.op == opConst || t.op == opVar {
		return
	}
	if t.size > inlineLimit && t.epoch == epoch {
		return
	}
	for _, a := range t.args {
		a.defs(epoch, out)
	}
	if t.size > inlineLimit {
		t.epoch = epoch
		fmt.Fprintf(out, "(define-fun t!%d () %s %s)\n", t.id, sortName(t.bits), t.body(epoch))
	}
}

// full prints t as a stand-alone term (for scripts sent to a second solver).
func (t *term) full() string {
	switch t.op {
	case opConst:
		return constStr(t)
	case opVar:
		return t.name
	}
	var b strings.Builder
	switch t.op {
	case opSignExt:
		fmt.Fprintf(&b, "((_ sign_extend %d) %s)", t.val, t.args[0].full())
	case opZeroExt:
		fmt.Fprintf(&b, "((_ zero_extend %d) %s)", t.val, t.args[0].full())
	case opExtract:
		fmt.Fprintf(&b, "((_ extract %d 0) %s)", t.val, t.args[0].full())
	default:
		b.WriteByte('(')
		b.WriteString(opNames[t.op])
		for _, a := range t.args {
			b.WriteByte(' ')
			b.WriteString(a.full())
		}
		b.WriteByte(')')
	}
	return b.String()
}

// vars collects the variables of t.
func (t *term) vars(seen map[int]bool, out *[]*term) {
	if seen[t.id] {
		return
	}
	seen[t.id] = true
	if t.op == opVar {
		*out = append(*out, t)
	}
	for _, a := range t.args {
		a.vars(seen, out)
	}
}

// eval evaluates t under an assignment of its variables (missing = 0).
func (t *term) eval(env map[string]uint64, memo map[int]uint64) uint64 {
	if v, ok := memo[t.id]; ok {
		return v
	}
	var r uint64
	arg := func(i int) uint64 { return t.args[i].eval(env, memo) }
	b2u := func(b bool) uint64 {
		if b {
			return 1
		}
		return 0
	}
	switch t.op {
	case opConst:
		r = t.val
	case opVar:
		r = env[t.name] & mask(max1(t.bits))
	case opNot:
		r = 1 - arg(0)
	case opAnd:
		r = 1
		for i := range t.args {
			if arg(i) == 0 {
				r = 0
				break
			}
		}
	case opOr:
		r = 0
		for i := range t.args {
			if arg(i) != 0 {
				r = 1
				break
			}
		}
	case opEq:
		r = b2u(arg(0) == arg(1))
	case opIte:
		if arg(0) != 0 {
			r = arg(1)
		} else {
			r = arg(2)
		}
	case opBvNot:
		r = ^arg(0) & mask(t.bits)
	case opBvNeg:
		r = -arg(0) & mask(t.bits)
	case opBvSlt:
		w := t.args[0].bits
		r = b2u(sext(arg(0), w) < sext(arg(1), w))
	case opBvSle:
		w := t.args[0].bits
		r = b2u(sext(arg(0), w) <= sext(arg(1), w))
	case opBvUlt:
		r = b2u(arg(0) < arg(1))
	case opBvUle:
		r = b2u(arg(0) <= arg(1))
	case opSignExt:
		r = uint64(sext(arg(0), t.args[0].bits)) & mask(t.bits)
	case opZeroExt:
		r = arg(0)
	case opExtract:
		r = arg(0) & mask(t.bits)
	default:
		x, y := arg(0), arg(1)
		v, ok := foldBin(t.op, x, y, t.bits)
		if !ok {
			// SMT-LIB semantics of division by zero
			switch t.op {
			case opBvUDiv:
				v = mask(t.bits)
			case opBvSDiv:
				if sext(x, t.bits) < 0 {
					v = 1
				} else {
					v = mask(t.bits)
				}
			case opBvURem, opBvSRem:
				v = x
			}
		}
		r = v
	}
	memo[t.id] = r
	return r
}

func max1(b int) int {
	if b == 0 {
		return 1
	}
	return b
}

var _ = bits.Len
