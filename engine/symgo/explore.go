package symgo

// Exploration of all feasible paths of a harness function: depth-first over
// event vectors by re-execution, on several workers with work sharing.

import (
	"fmt"
	"go/types"
	"hash/fnv"
	"os"
	"sort"
	"strings"
	"sync"
	"sync/atomic"
	"time"

	"golang.org/x/tools/go/ssa"
)

type Options struct {
	Workers     int
	SolverBin   string
	TimeoutMs   int
	MaxSteps    int64
	MaxDepth    int
	MaxPaths    int64
	ValueCap    int
	Seed        int64
	Samples     int    // number of paths kept (model + trace) for native validation
	DiffQueries int    // number of assertion queries kept for the second-solver diff
	Property    string // property charged with uncaught panics
	Deadline    time.Time
	Progress    func(string)
}

type Result struct {
	Paths        int64
	Aborted      int64
	Decisions    int64
	Queries      int64
	SolverTime   time.Duration
	Wall         time.Duration
	Steps        int64
	Violations   []Violation
	Samples      []PathSample
	AssertReach  map[string]int64
	CoverReach   map[string]int64
	Inconclusive []string
	FuncsRun     map[string]int64
	FuncInstrs   map[string]int
	Poisoned     []string
	Intercepted  map[string]int64
	MaxEvents    int
	Diffs        []DiffQuery
	IfConverted  int64
	IfBailed     int64
	// SolverRetries: paths run a second time because the solver process misbehaved
	SolverRetries int64
}

type sampleEntry struct {
	h uint64
	s PathSample
}

type explorer struct {
	prog  *ssa.Program
	fn    *ssa.Function
	args  []value
	cfg   *Config
	opts  Options
	mu    sync.Mutex
	cond  *sync.Cond
	queue [][]event
	idle  int
	done  bool
	paths int64
	res   *Result
	stop  int32

	solverRetries int64
}

var epochCounter int32

func newInterpreter(prog *ssa.Program, cfg *Config, opts Options) *interpreter {
	i := &interpreter{
		prog:      prog,
		globals:   map[*ssa.Global]*value{},
		sizes:     types.SizesFor("gc", "amd64"),
		inited:    map[*ssa.Package]bool{},
		icptCache: map[*ssa.Function]interceptFn{},
		icptMiss:  map[*ssa.Function]bool{},
		funcsRun:  map[*ssa.Function]int64{},
		maxDepth:  opts.MaxDepth,
		maxSteps:  opts.MaxSteps,
		cfg:       cfg,
		natState:  map[string]interface{}{},
		ifConv:    cfg == nil || !cfg.NoIfConv,
	}
	rt := prog.ImportedPackage("runtime")
	if rt == nil {
		panic("program does not include package runtime")
	}
	i.runtimeErrorString = rt.Type("errorString").Object().Type()
	return i
}

// Explore runs fn(args...) over all feasible paths.
func Explore(prog *ssa.Program, fn *ssa.Function, args []int, cfg *Config, opts Options) *Result {
	if opts.Workers <= 0 {
		opts.Workers = 1
	}
	if opts.MaxSteps == 0 {
		opts.MaxSteps = 5_000_000
	}
	if opts.MaxDepth == 0 {
		opts.MaxDepth = 400
	}
	if opts.SolverBin == "" {
		opts.SolverBin = "z3"
	}
	if opts.ValueCap == 0 {
		opts.ValueCap = 64
	}
	ex := &explorer{prog: prog, fn: fn, cfg: cfg, opts: opts}
	// harness signature: func(a []int)
	av := make([]value, len(args))
	for k, a := range args {
		av[k] = a
	}
	ex.args = []value{av}
	ex.cond = sync.NewCond(&ex.mu)
	ex.queue = [][]event{nil}
	ex.res = &Result{AssertReach: map[string]int64{}, CoverReach: map[string]int64{}, FuncsRun: map[string]int64{}, FuncInstrs: map[string]int{}}
	t0 := time.Now()
	var wg sync.WaitGroup
	stopTick := make(chan struct{})
	if opts.Progress != nil {
		go func() {
			tk := time.NewTicker(5 * time.Second)
			defer tk.Stop()
			for {
				select {
				case <-stopTick:
					return
				case <-tk.C:
					ex.mu.Lock()
					q, idle := len(ex.queue), ex.idle
					ex.mu.Unlock()
					opts.Progress(fmt.Sprintf("  ... %.0fs paths started=%d queue=%d idle=%d", time.Since(t0).Seconds(), atomic.LoadInt64(&ex.paths), q, idle))
				}
			}
		}()
	}
	for w := 0; w < opts.Workers; w++ {
		wg.Add(1)
		go func(w int) {
			defer wg.Done()
			ex.worker(w)
		}(w)
	}
	wg.Wait()
	close(stopTick)
	ex.res.Wall = time.Since(t0)
	ex.res.SolverRetries = ex.solverRetries
	sort.Slice(ex.res.Samples, func(a, b int) bool {
		return hashEvents(opts.Seed, ex.res.Samples[a].Events) < hashEvents(opts.Seed, ex.res.Samples[b].Events)
	})
	if len(ex.res.Samples) > opts.Samples {
		ex.res.Samples = ex.res.Samples[:opts.Samples]
	}
	sort.Slice(ex.res.Samples, func(a, b int) bool { return ex.res.Samples[a].Events < ex.res.Samples[b].Events })
	sort.Strings(ex.res.Inconclusive)
	return ex.res
}

func (ex *explorer) take() ([]event, bool) {
	ex.mu.Lock()
	defer ex.mu.Unlock()
	for {
		if ex.done {
			return nil, false
		}
		if n := len(ex.queue); n > 0 {
			p := ex.queue[n-1]
			ex.queue = ex.queue[:n-1]
			return p, true
		}
		ex.idle++
		if ex.idle == ex.opts.Workers {
			ex.done = true
			ex.cond.Broadcast()
			return nil, false
		}
		ex.cond.Wait()
		ex.idle--
	}
}

func (ex *explorer) hungry() bool {
	ex.mu.Lock()
	defer ex.mu.Unlock()
	return len(ex.queue) < ex.opts.Workers && ex.idle > 0 || len(ex.queue) == 0
}

func (ex *explorer) give(ps [][]event) {
	ex.mu.Lock()
	ex.queue = append(ex.queue, ps...)
	ex.mu.Unlock()
	ex.cond.Broadcast()
}

func (ex *explorer) inconclusive(msg string) {
	ex.mu.Lock()
	defer ex.mu.Unlock()
	for _, m := range ex.res.Inconclusive {
		if m == msg {
			return
		}
	}
	if len(ex.res.Inconclusive) < 50 {
		ex.res.Inconclusive = append(ex.res.Inconclusive, msg)
	}
}

func hashEvents(seed int64, s string) uint64 {
	h := fnv.New64a()
	fmt.Fprintf(h, "%d|%s", seed, s)
	return h.Sum64()
}

func (ex *explorer) worker(w int) {
	opts := ex.opts
	mkSym := func() *symCtx {
		s := newSymCtx(opts.SolverBin, opts.TimeoutMs, int(atomic.AddInt32(&epochCounter, 1)))
		s.valueCap = opts.ValueCap
		s.diffSeed, s.diffWant = opts.Seed, opts.DiffQueries
		return s
	}
	sym := mkSym()
	defer func() { sym.slv.close() }()
	in := newInterpreter(ex.prog, ex.cfg, opts)
	in.sym = sym
	var local [][]event
	retried := map[string]bool{}
	var samples []sampleEntry
	asserts := map[string]int64{}
	covers := map[string]int64{}
	var nviol []Violation
	maxEvents := 0
	var steps int64

	flush := func() {
		ex.mu.Lock()
		r := ex.res
		r.Paths += sym.Paths
		r.Aborted += sym.Aborted
		r.Decisions += sym.Decisions
		r.Queries += int64(sym.slv.Queries)
		r.SolverTime += sym.slv.Time
		r.Steps += steps
		for k, v := range asserts {
			r.AssertReach[k] += v
		}
		for k, v := range covers {
			r.CoverReach[k] += v
		}
		r.Violations = append(r.Violations, nviol...)
		r.Diffs = append(r.Diffs, sym.diffs...)
		for _, s := range samples {
			r.Samples = append(r.Samples, s.s)
		}
		for f, n := range in.funcsRun {
			name := f.String()
			r.FuncsRun[name] += n
			if _, ok := r.FuncInstrs[name]; !ok {
				r.FuncInstrs[name] = compiled(f).instrs
			}
		}
		r.Poisoned = append(r.Poisoned, in.Poisoned...)
		r.IfConverted += in.ifStats.Converted
		r.IfBailed += in.ifStats.Bailed
		if maxEvents > r.MaxEvents {
			r.MaxEvents = maxEvents
		}
		ex.mu.Unlock()
	}
	defer flush()

	for {
		var prefix []event
		if n := len(local); n > 0 {
			prefix = local[n-1]
			local = local[:n-1]
		} else {
			p, ok := ex.take()
			if !ok {
				return
			}
			prefix = p
		}
		if atomic.LoadInt32(&ex.stop) != 0 {
			continue // drain
		}
		if n := atomic.AddInt64(&ex.paths, 1); opts.MaxPaths > 0 && n > opts.MaxPaths {
			ex.inconclusive(fmt.Sprintf("path budget of %d exhausted", opts.MaxPaths))
			atomic.StoreInt32(&ex.stop, 1)
			continue
		}
		if !opts.Deadline.IsZero() && time.Now().After(opts.Deadline) {
			ex.inconclusive("time budget exhausted before the exploration finished")
			atomic.StoreInt32(&ex.stop, 1)
			continue
		}
		outcome := ex.runPath(in, sym, prefix)
		steps += sym.steps
		if len(sym.events) > maxEvents {
			maxEvents = len(sym.events)
		}
		switch o := outcome.(type) {
		case nil:
		case pathAbort:
		case targetPanic:
			// a panic that escaped the harness
			if tf := os.Getenv("SYMGO_TRACEPANIC"); tf != "" && in.traceFn == "" {
				in.traceFn = tf
				evs := append([]event(nil), sym.events[:sym.pos]...)
				fmt.Fprintf(os.Stderr, "TRACE re-running path %s\n", eventsString(evs))
				ex.runPath(in, sym, evs)
				os.Exit(9)
			}
			msg := "uncaught panic: " + renderPanic(in, o) + " [in " + strings.Join(in.lastPanicWhere, " < ") + "]"
			sym.asserts["uncaught panic"]++
			sym.ensureModelSafe()
			v := Violation{Property: opts.Property, Label: "uncaught panic", Disc: sym.disc, Model: sym.model, Events: eventsString(sym.events[:sym.pos])}
			v.Notes = append(sym.renderNotes(sym.model), msg)
			sym.viol = append(sym.viol, v)
		case boundExceeded:
			ev := eventsString(sym.events[:sym.pos])
			if len(ev) > 200 {
				ev = ev[:200] + "..."
			}
			ex.inconclusive("bound exceeded: " + o.why + " [in " + strings.Join(in.stackNames(), " < ") + "] [events " + ev + "]")
		case solverTrouble:
			// a solver process that misbehaves (out of memory, killed, timeout under load) is
			// replaced and the path is run again once from its prefix before the run is
			// declared inconclusive
			key := eventsString(prefix)
			if !retried[key] {
				retried[key] = true
				atomic.AddInt64(&ex.solverRetries, 1)
				local = append(local, append([]event(nil), prefix...))
				sym.Paths--
			} else {
				ex.inconclusive("solver: " + o.msg)
			}
			sym.slv.close()
			ns := mkSym()
			ns.Paths, ns.Aborted, ns.Decisions = sym.Paths, sym.Aborted, sym.Decisions
			ns.slv.Queries, ns.slv.Time = sym.slv.Queries, sym.slv.Time
			ns.tt = sym.tt
			ns.diffs = sym.diffs
			sym = ns
			in.sym = sym
			continue
		case engineTrap:
			where := strings.Join(o.where, " < ")
			ex.inconclusive("engine trap: " + o.msg + " [in " + where + "]")
			if opts.Progress != nil {
				opts.Progress("TRAP " + o.msg + "\n  in " + where + "\n" + o.stack)
			}
		default:
			ex.inconclusive(fmt.Sprintf("engine fault: %v", o))
		}
		for k, v := range sym.asserts {
			asserts[k] += int64(v)
		}
		for k, v := range sym.covers {
			covers[k] += int64(v)
		}
		if TwinLabel != "" {
			for _, v := range sym.viol {
				if v.Label == TwinLabel {
					atomic.StoreInt32(&ex.stop, 1) // the twin has been seen violated: enough
				}
			}
		}
		nviol = append(nviol, sym.viol...)
		sym.viol = nil
		// alternatives
		local = append(local, sym.pending...)
		sym.pending = sym.pending[:0]
		if len(local) > 1 && ex.hungry() {
			n := len(local) / 2
			give := make([][]event, n)
			copy(give, local[:n])
			local = append(local[:0], local[n:]...)
			ex.give(give)
		}
		// sampling for validation
		if outcome == nil && opts.Samples > 0 {
			h := hashEvents(opts.Seed, eventsString(sym.events))
			if len(samples) < opts.Samples || h < samples[len(samples)-1].h {
				func() {
					defer func() {
						if r := recover(); r != nil {
							if st, ok := r.(solverTrouble); ok {
								ex.inconclusive("solver: " + st.msg)
								return
							}
							panic(r)
						}
					}()
					sym.ensureModel()
					ps := PathSample{Events: eventsString(sym.events), Model: sym.model, Notes: sym.renderNotes(sym.model)}
					for k := range sym.asserts {
						ps.Asserts = append(ps.Asserts, k)
					}
					for k := range sym.covers {
						ps.Covers = append(ps.Covers, k)
					}
					sort.Strings(ps.Asserts)
					sort.Strings(ps.Covers)
					samples = append(samples, sampleEntry{h, ps})
					sort.Slice(samples, func(a, b int) bool { return samples[a].h < samples[b].h })
					if len(samples) > opts.Samples {
						samples = samples[:opts.Samples]
					}
				}()
			}
		}
	}
}

func (s *symCtx) ensureModelSafe() {
	defer func() {
		if r := recover(); r != nil {
			s.model = map[string]uint64{}
		}
	}()
	s.ensureModel()
}

func renderPanic(in *interpreter, p targetPanic) string {
	defer func() { recover() }()
	if it, ok := p.v.(iface); ok && it.t != nil {
		if in.prog.MethodSets.MethodSet(it.t).Lookup(nil, "Error") != nil {
			return in.errorString(nil, it)
		}
		return toString(it.v)
	}
	return toString(p.v)
}

// runPath executes the harness once along prefix; it returns nil on normal
// completion or the value that ended the path.
func (ex *explorer) runPath(in *interpreter, sym *symCtx, prefix []event) (outcome interface{}) {
	sym.beginPath(prefix)
	in.stack = in.stack[:0]
	in.sp = 0
	in.spec = nil
	in.freshMaps = nil
	sym.noFork = false
	in.frozenCells = nil
	defer func() {
		if r := recover(); r != nil {
			outcome = r
			if outcome == nil {
				outcome = "nil panic"
			}
		}
		in.teardownSched()
		delete(in.natState, "chanq")
	}()
	callSSA(in, nil, 0, ex.fn, ex.args, nil)
	return nil
}
