package symgo

// If-conversion by speculative region execution.
//
// At an `If` on a symbolic condition the engine normally forks the path. When
// the region between the branch and its immediate post-dominator J is acyclic
// and small, and executing it has no effect other than writes of mergeable
// scalars to memory, both sides can instead be executed on the same path: the
// values reaching J's phis and the final values of the written cells are
// merged into `ite` terms guarded by the branch conditions. The transformation
// preserves semantics exactly; it only moves case splits from the path tree
// into the solver. Anything the speculation cannot handle (a call with side
// effects, a fork that cannot itself be converted, a possible panic, values
// that cannot be merged) aborts it without trace and the branch forks as usual.

import (
	"fmt"
	"golang.org/x/tools/go/ssa"
	"os"
)

// specBail aborts the innermost speculation.
type specBail struct{ why string }

type undoRec struct {
	addr *value
	old  value
}

type specCtx struct {
	parent *specCtx
	undo   []undoRec
	fresh  map[*value]struct{} // cells allocated during the speculation (shared with nested contexts)
}

// IfConvStats counts conversions (for evidence / tuning).
type IfConvStats struct {
	Converted int64
	Bailed    int64
}

type regionInfo struct {
	ok     bool
	join   int          // block index of the immediate post-dominator
	blocks map[int]bool // region blocks
}

// ---- static analysis, cached per compiled function

func (cf *cfunc) postDominators() []int {
	cf.pdomOnce.Do(func() {
		n := len(cf.blocks)
		exit := n // virtual exit
		succs := make([][]int, n+1)
		preds := make([][]int, n+1)
		for k, b := range cf.blocks {
			if len(b.b.Succs) == 0 {
				succs[k] = append(succs[k], exit)
				preds[exit] = append(preds[exit], k)
			}
			for _, s := range b.b.Succs {
				succs[k] = append(succs[k], s.Index)
				preds[s.Index] = append(preds[s.Index], k)
			}
		}
		// iterative dominators on the reversed graph (Cooper-Harvey-Kennedy)
		order := make([]int, 0, n+1) // reverse postorder of the reversed graph from exit
		seen := make([]bool, n+1)
		var dfs func(int)
		dfs = func(u int) {
			seen[u] = true
			for _, p := range preds[u] {
				if !seen[p] {
					dfs(p)
				}
			}
			order = append(order, u)
		}
		dfs(exit)
		rpoNum := make([]int, n+1)
		for k := range rpoNum {
			rpoNum[k] = -1
		}
		for k := range order {
			rpoNum[order[len(order)-1-k]] = k
		}
		idom := make([]int, n+1)
		for k := range idom {
			idom[k] = -1
		}
		idom[exit] = exit
		intersect := func(a, b int) int {
			for a != b {
				for rpoNum[a] > rpoNum[b] {
					a = idom[a]
				}
				for rpoNum[b] > rpoNum[a] {
					b = idom[b]
				}
			}
			return a
		}
		changed := true
		for changed {
			changed = false
			for k := len(order) - 2; k >= 0; k-- { // skip exit (last in postorder)
				u := order[k]
				newIdom := -1
				for _, s := range succs[u] {
					if idom[s] == -1 {
						continue
					}
					if newIdom == -1 {
						newIdom = s
					} else {
						newIdom = intersect(s, newIdom)
					}
				}
				if newIdom != -1 && idom[u] != newIdom {
					idom[u] = newIdom
					changed = true
				}
			}
		}
		cf.pdom = make([]int, n)
		for k := 0; k < n; k++ {
			if idom[k] == exit || idom[k] == -1 {
				cf.pdom[k] = -1
			} else {
				cf.pdom[k] = idom[k]
			}
		}
	})
	return cf.pdom
}

const maxRegionBlocks = 24

func pureRegionInstr(ins ssa.Instruction) bool {
	switch ins.(type) {
	case *ssa.BinOp, *ssa.UnOp, *ssa.Call, *ssa.ChangeInterface, *ssa.ChangeType, *ssa.Convert,
		*ssa.MakeInterface, *ssa.Extract, *ssa.Slice, *ssa.Field, *ssa.FieldAddr, *ssa.Index, *ssa.IndexAddr,
		*ssa.Lookup, *ssa.TypeAssert, *ssa.MakeClosure, *ssa.Alloc, *ssa.MakeSlice, *ssa.MakeMap,
		*ssa.Store, *ssa.If, *ssa.Jump, *ssa.Phi, *ssa.DebugRef:
		return true
	}
	return false
}

func (cf *cfunc) region(b int) *regionInfo {
	cf.regionMu.Lock()
	defer cf.regionMu.Unlock()
	if cf.regions == nil {
		cf.regions = map[int]*regionInfo{}
	}
	if r, ok := cf.regions[b]; ok {
		return r
	}
	r := &regionInfo{}
	cf.regions[b] = r
	pd := cf.postDominators()
	j := pd[b]
	if j < 0 {
		return r
	}
	blocks := map[int]bool{}
	state := map[int]int{} // 1 = on stack, 2 = done
	ok := true
	var dfs func(u int)
	dfs = func(u int) {
		if !ok || u == j {
			return
		}
		if u == b {
			ok = false // loops back to the branch
			return
		}
		switch state[u] {
		case 1:
			ok = false // cycle inside the region
			return
		case 2:
			return
		}
		state[u] = 1
		blocks[u] = true
		if len(blocks) > maxRegionBlocks {
			ok = false
			return
		}
		for _, in := range cf.blocks[u].b.Instrs {
			if !pureRegionInstr(in) {
				ok = false
				return
			}
		}
		for _, s := range cf.blocks[u].b.Succs {
			dfs(s.Index)
		}
		state[u] = 2
	}
	for _, s := range cf.blocks[b].b.Succs {
		dfs(s.Index)
	}
	if !ok {
		return r
	}
	r.ok, r.join, r.blocks = true, j, blocks
	return r
}

// ---- dynamic part

func (i *interpreter) markFresh(p *value) {
	sp := i.spec
	if sp == nil || p == nil {
		return
	}
	sp.fresh[p] = struct{}{}
	i.markFreshValue(*p)
}

func (i *interpreter) markFreshValue(v value) {
	switch x := v.(type) {
	case structure:
		for k := range x {
			i.spec.fresh[&x[k]] = struct{}{}
			i.markFreshValue(x[k])
		}
	case array:
		for k := range x {
			i.spec.fresh[&x[k]] = struct{}{}
			i.markFreshValue(x[k])
		}
	}
}

// specStore is a Store executed while a speculation is active.
func (i *interpreter) specLog(addr *value) {
	sp := i.spec
	if _, ok := sp.fresh[addr]; ok {
		return
	}
	sp.undo = append(sp.undo, undoRec{addr, *addr})
}

func (sp *specCtx) undoTo(n int) {
	for k := len(sp.undo) - 1; k >= n; k-- {
		*sp.undo[k].addr = sp.undo[k].old
	}
	sp.undo = sp.undo[:n]
}

type specPath struct {
	guard  *term
	phis   []value
	stores map[*value]value
}

const maxSpecPaths = 16

// tryIfConvert executes both sides of the If at the end of fr.block on the
// current path. It returns true if it did (control is then at the join block
// with its phis already assigned).
func (fr *frame) tryIfConvert(ci *cinstr, c symBool) bool {
	i := fr.i
	if !i.ifConv || fr.tolerant {
		return false
	}
	if _, known := i.sym.known(c.t); known {
		return false
	}
	reg := fr.cf.region(fr.block.index)
	if !reg.ok {
		return false
	}
	join := fr.cf.blocks[reg.join]
	sp := &specCtx{parent: i.spec}
	if i.spec != nil {
		sp.fresh = i.spec.fresh
	} else {
		sp.fresh = map[*value]struct{}{}
	}
	savedStack, savedArena, savedSP := len(i.stack), i.arena, i.sp
	savedRegs := append([]value(nil), fr.regs...)
	savedBlock, savedPrev := fr.block, fr.prevBlock
	savedNoFork := i.sym.noFork
	i.spec = sp
	i.sym.noFork = true
	var paths []specPath
	ok := func() (ok bool) {
		defer func() {
			if r := recover(); r != nil {
				switch r.(type) {
				case specBail, targetPanic:
					ok = false
				default:
					// engine-level outcomes (traps, budgets, solver trouble) propagate
					sp.undoTo(0)
					i.spec, i.sym.noFork = sp.parent, savedNoFork
					panic(r)
				}
			}
		}()
		tt := i.sym.tt
		visits := 0
		var walk func(b *cblock, prev *cblock, guard *term)
		walk = func(b *cblock, prev *cblock, guard *term) {
			for {
				if b == join {
					if len(paths) >= maxSpecPaths {
						panic(specBail{"too many paths"})
					}
					p := specPath{guard: guard, stores: map[*value]value{}}
					if len(join.phis) > 0 {
						pi := -1
						for k, pb := range join.b.Preds {
							if pb == prev.b {
								pi = k
								break
							}
						}
						for _, phi := range join.phis {
							p.phis = append(p.phis, fr.get(phi.edges[pi]))
						}
					}
					for _, u := range sp.undo {
						p.stores[u.addr] = *u.addr
					}
					paths = append(paths, p)
					return
				}
				visits++
				if visits > 4*maxRegionBlocks {
					panic(specBail{"region too long"})
				}
				if len(b.phis) > 0 {
					pi := -1
					for k, pb := range b.b.Preds {
						if pb == prev.b {
							pi = k
							break
						}
					}
					tmp := make([]value, len(b.phis))
					for k, phi := range b.phis {
						tmp[k] = fr.get(phi.edges[pi])
					}
					for k, phi := range b.phis {
						fr.regs[phi.dst] = tmp[k]
					}
				}
				i.sym.steps += int64(len(b.instrs))
				var next *cblock
				for k := range b.instrs {
					in := &b.instrs[k]
					switch ins := in.ins.(type) {
					case *ssa.If:
						cv := fr.get(in.x)
						var ct *term
						switch cv := cv.(type) {
						case bool:
							ct = tt.boolc(cv)
						case symBool:
							ct = cv.t
						default:
							panic(specBail{"condition"})
						}
						if kv, known := i.sym.known(ct); known {
							ct = tt.boolc(kv)
						}
						s0, s1 := fr.cf.blocks[b.b.Succs[0].Index], fr.cf.blocks[b.b.Succs[1].Index]
						if ct.isConst() {
							if ct.val != 0 {
								next = s0
							} else {
								next = s1
							}
							break
						}
						regsHere := append([]value(nil), fr.regs...)
						mark := len(sp.undo)
						// the final values of cells written before the fork belong to both sides;
						// each side continues from the memory state at the fork
						walk(s0, b, tt.and(guard, ct))
						copy(fr.regs, regsHere)
						sp.undoTo(mark)
						walk(s1, b, tt.and(guard, tt.not(ct)))
						sp.undoTo(mark)
						return
					case *ssa.Jump:
						next = fr.cf.blocks[b.b.Succs[0].Index]
					default:
						_ = ins
						fr.block = b
						if c := visitInstr(fr, in); c != kNext {
							panic(specBail{"control"})
						}
					}
				}
				if next == nil {
					panic(specBail{"no successor"})
				}
				prev, b = b, next
			}
		}
		s0, s1 := fr.cf.blocks[savedBlock.b.Succs[0].Index], fr.cf.blocks[savedBlock.b.Succs[1].Index]
		walk(s0, savedBlock, c.t)
		copy(fr.regs, savedRegs)
		sp.undoTo(0)
		walk(s1, savedBlock, tt.not(c.t))
		sp.undoTo(0)
		return true
	}()
	// leave speculation mode; memory is back to its state at the branch
	sp.undoTo(0)
	i.spec, i.sym.noFork = sp.parent, savedNoFork
	i.stack, i.arena, i.sp = i.stack[:savedStack], savedArena, savedSP
	restore := func() {
		copy(fr.regs, savedRegs)
		fr.block, fr.prevBlock = savedBlock, savedPrev
	}
	if !ok || len(paths) == 0 {
		restore()
		i.ifStats.Bailed++
		return false
	}
	// merge phi values and stores
	tt := i.sym.tt
	merge := func(vals []value) (value, bool) {
		acc := vals[len(vals)-1]
		for k := len(vals) - 2; k >= 0; k-- {
			v, ok := i.iteValue(paths[k].guard, vals[k], acc)
			if !ok {
				return nil, false
			}
			acc = v
		}
		return acc, true
	}
	_ = tt
	phiOut := make([]value, len(join.phis))
	for k := range join.phis {
		vals := make([]value, len(paths))
		for p := range paths {
			vals[p] = paths[p].phis[k]
		}
		v, ok := merge(vals)
		if !ok {
			restore()
			i.ifStats.Bailed++
			return false
		}
		phiOut[k] = v
	}
	type st struct {
		addr *value
		v    value
	}
	var stores []st
	seen := map[*value]bool{}
	for _, p := range paths {
		for addr := range p.stores {
			if seen[addr] {
				continue
			}
			seen[addr] = true
			vals := make([]value, len(paths))
			for q := range paths {
				if v, ok := paths[q].stores[addr]; ok {
					vals[q] = v
				} else {
					vals[q] = *addr
				}
			}
			v, ok := merge(vals)
			if !ok {
				restore()
				i.ifStats.Bailed++
				return false
			}
			stores = append(stores, st{addr, v})
		}
	}
	// commit
	copy(fr.regs, savedRegs)
	for _, s := range stores {
		if i.frozenCells != nil {
			i.checkFrozen(s.addr)
		}
		if i.spec != nil {
			i.specLog(s.addr)
		}
		*s.addr = s.v
	}
	for k, phi := range join.phis {
		fr.regs[phi.dst] = phiOut[k]
		if i.traceFn != "" {
			fmt.Fprintf(os.Stderr, "TRACE   phi r%d := %s (paths %d)\n", phi.dst, toString(phiOut[k]), len(paths))
			for q := range paths {
				fmt.Fprintf(os.Stderr, "TRACE      path %d guard %s val %s\n", q, paths[q].guard.full(), toString(paths[q].phis[k]))
			}
		}
	}
	fr.prevBlock, fr.block = savedBlock, join
	fr.skipPhis = true
	i.ifStats.Converted++
	return true
}

// specLogDeep logs every leaf cell of an aggregate that is about to be overwritten in place.
func (i *interpreter) specLogDeep(addr *value) {
	if addr == nil {
		return
	}
	switch x := (*addr).(type) {
	case structure:
		for k := range x {
			i.specLogDeep(&x[k])
		}
	case array:
		for k := range x {
			i.specLogDeep(&x[k])
		}
	default:
		i.specLog(addr)
	}
}

func (i *interpreter) bailIfSpeculating(why string) {
	if i.spec != nil {
		panic(specBail{why})
	}
}
