package symgo

// Engine side of the harness API (package .../zz_verif/sym).

import (
	"fmt"
	"go/token"
	"go/types"

	"golang.org/x/tools/go/ssa"
)

const tokenADD = token.ADD

var symAPI map[string]interceptFn

func init() {
	mkInt := func(k types.BasicKind) interceptFn {
		return func(caller *frame, fn *ssa.Function, args []value) value {
			b, _ := kindBits(k)
			return symInt{caller.i.sym.fresh(args[0].(string), b), k}
		}
	}
	symAPI = map[string]interceptFn{
		"Int32": mkInt(types.Int32),
		"Int64": mkInt(types.Int64),
		"Int":   mkInt(types.Int),
		"Bool": func(caller *frame, fn *ssa.Function, args []value) value {
			s := caller.i.sym
			v := s.fresh(args[0].(string), 1)
			return symBool{s.tt.eq(v, s.tt.bv(1, 1))}
		},
		"IntIn": func(caller *frame, fn *ssa.Function, args []value) value {
			s := caller.i.sym
			lo, hi := args[1].(int), args[2].(int)
			if lo == hi {
				s.fresh(args[0].(string), 64) // keep variable numbering aligned with the native run
				return lo
			}
			v := s.fresh(args[0].(string), 64)
			s.assume(s.tt.and(s.tt.bvcmp(opBvSle, s.tt.bv(uint64(lo), 64), v), s.tt.bvcmp(opBvSle, v, s.tt.bv(uint64(hi), 64))))
			return symInt{v, types.Int}
		},
		"Pick": func(caller *frame, fn *ssa.Function, args []value) value {
			s := caller.i.sym
			n := args[1].(int)
			v := s.fresh(args[0].(string), 64)
			s.assume(s.tt.bvcmp(opBvUlt, v, s.tt.bv(uint64(n), 64)))
			return int(int64(s.concretise(v)))
		},
		"Str": func(caller *frame, fn *ssa.Function, args []value) value {
			s := caller.i.sym
			var table []string
			for _, o := range args[1].([]value) {
				table = append(table, o.(string))
			}
			if len(table) == 0 {
				panic(engineTrap{msg: "sym.Str without options"})
			}
			v := s.fresh(args[0].(string), 8)
			if len(table) == 1 {
				s.assume(s.tt.eq(v, s.tt.bv(0, 8)))
				return table[0]
			}
			s.assume(s.tt.bvcmp(opBvUlt, v, s.tt.bv(uint64(len(table)), 8)))
			return symStr{v, table}
		},
		"Assume": func(caller *frame, fn *ssa.Function, args []value) value {
			caller.i.sym.assume(caller.i.sym.boolTerm(args[0]))
			return nil
		},
		"Assert": func(caller *frame, fn *ssa.Function, args []value) value {
			caller.i.sym.assert(caller.i.sym.boolTerm(args[0]), args[1].(string), args[2].(string))
			return nil
		},
		"Cover": func(caller *frame, fn *ssa.Function, args []value) value {
			caller.i.sym.covers[args[0].(string)]++
			return nil
		},
		"Disc": func(caller *frame, fn *ssa.Function, args []value) value {
			caller.i.sym.disc = caller.i.concreteStr(args[0]).(string)
			return nil
		},
		"Note": func(caller *frame, fn *ssa.Function, args []value) value {
			i := caller.i
			var vals []value
			for _, v := range args[1].([]value) {
				vals = append(vals, i.noteValue(caller, v))
			}
			i.sym.notes = append(i.sym.notes, noteRec{key: args[0].(string), vals: vals})
			return nil
		},
		"And": func(caller *frame, fn *ssa.Function, args []value) value {
			s := caller.i.sym
			var ts []*term
			for _, v := range args[0].([]value) {
				ts = append(ts, s.boolTerm(v))
			}
			return wrapBool(s.tt.and(ts...))
		},
		"Or": func(caller *frame, fn *ssa.Function, args []value) value {
			s := caller.i.sym
			var ts []*term
			for _, v := range args[0].([]value) {
				ts = append(ts, s.boolTerm(v))
			}
			return wrapBool(s.tt.or(ts...))
		},
		"Not": func(caller *frame, fn *ssa.Function, args []value) value {
			s := caller.i.sym
			return wrapBool(s.tt.not(s.boolTerm(args[0])))
		},
		"Implies": func(caller *frame, fn *ssa.Function, args []value) value {
			s := caller.i.sym
			return wrapBool(s.tt.implies(s.boolTerm(args[0]), s.boolTerm(args[1])))
		},
		"Ite32":  iteAPI,
		"Ite64":  iteAPI,
		"IteInt": iteAPI,
		"IteStr": iteAPI,
		"B2I": func(caller *frame, fn *ssa.Function, args []value) value {
			s := caller.i.sym
			return wrapInt(s.tt.ite(s.boolTerm(args[0]), s.tt.bv(1, 64), s.tt.bv(0, 64)), types.Int)
		},
		"Concrete": func(caller *frame, fn *ssa.Function, args []value) value {
			return caller.i.concreteInt(args[0])
		},
		"ConcreteBool": func(caller *frame, fn *ssa.Function, args []value) value {
			return caller.i.concrete(args[0])
		},
		"ConcreteStr": func(caller *frame, fn *ssa.Function, args []value) value {
			return caller.i.concreteStr(args[0])
		},
		"IsSymbolic": func(caller *frame, fn *ssa.Function, args []value) value { return true },
		"SlotsJSON": func(caller *frame, fn *ssa.Function, args []value) value {
			xs := args[0].([]value)
			anySym := false
			for _, x := range xs {
				if isSym(x) {
					anySym = true
				}
			}
			if !anySym {
				s := "["
				for k, x := range xs {
					if k > 0 {
						s += ","
					}
					s += fmt.Sprint(x)
				}
				if xs == nil {
					return "null"
				}
				return s + "]"
			}
			return symSlotsStr{append([]value(nil), xs...)}
		},
		"Quiesce": func(caller *frame, fn *ssa.Function, args []value) value {
			caller.i.quiesce()
			return nil
		},
		"Alive": func(caller *frame, fn *ssa.Function, args []value) value {
			return caller.i.alive()
		},
		"Freeze": func(caller *frame, fn *ssa.Function, args []value) value {
			caller.i.freeze(args[0])
			return nil
		},
	}
}

// symSlotsStr is the string form of a JSON list of (partly) symbolic int32.
type symSlotsStr struct{ vals []value }

func iteAPI(caller *frame, fn *ssa.Function, args []value) value {
	i := caller.i
	c := i.sym.boolTerm(args[0])
	v, ok := i.iteValue(c, args[1], args[2])
	if !ok {
		panic(engineTrap{msg: "sym.Ite: operands cannot be merged"})
	}
	return v
}

// noteValue prepares a value for a trace line: symbolic scalars are kept
// (evaluated under the final model), errors are rendered by their message.
func (i *interpreter) noteValue(caller *frame, v value) value {
	if it, ok := v.(iface); ok {
		if it.t == nil {
			return "<nil>"
		}
		switch it.v.(type) {
		case symInt, symBool, symStr:
			return it.v
		}
		if i.prog.MethodSets.MethodSet(it.t).Lookup(nil, "Error") != nil {
			if p, ok := it.v.(*value); ok && p == nil {
				return "<nil>"
			}
			return i.errorString(caller, it)
		}
		return i.noteValue(caller, it.v)
	}
	switch x := v.(type) {
	case []value:
		out := "["
		for k, e := range x {
			if k > 0 {
				out += " "
			}
			out += toString(i.noteValue(caller, e))
		}
		return out + "]"
	}
	return v
}

// freeze marks every cell reachable from v as read-only.
func (i *interpreter) freeze(v value) {
	if i.frozenCells == nil {
		i.frozenCells = map[*value]struct{}{}
	}
	seen := map[*value]bool{}
	var walk func(v value)
	walkCell := func(p *value) {
		if p == nil || seen[p] {
			return
		}
		seen[p] = true
		i.frozenCells[p] = struct{}{}
		walk(*p)
	}
	walk = func(v value) {
		switch x := v.(type) {
		case iface:
			walk(x.v)
		case *value:
			walkCell(x)
		case structure:
			for k := range x {
				i.frozenCells[&x[k]] = struct{}{}
				walk(x[k])
			}
		case array:
			for k := range x {
				i.frozenCells[&x[k]] = struct{}{}
				walk(x[k])
			}
		case []value:
			full := x[:cap(x)]
			for k := range x {
				i.frozenCells[&full[k]] = struct{}{}
				walk(x[k])
			}
		case *omap:
			if x != nil && !x.frozen {
				x.frozen = true
				for k := range x.keys {
					walk(x.keys[k])
					walk(x.vals[k])
				}
			}
		}
	}
	walk(v)
}
