package symgo

import (
	"fmt"
	"go/token"
	"go/types"
)

func isZeroInt(v value) bool {
	switch v := v.(type) {
	case int:
		return v == 0
	case int8:
		return v == 0
	case int16:
		return v == 0
	case int32:
		return v == 0
	case int64:
		return v == 0
	case uint:
		return v == 0
	case uint8:
		return v == 0
	case uint16:
		return v == 0
	case uint32:
		return v == 0
	case uint64:
		return v == 0
	case uintptr:
		return v == 0
	}
	return false
}

// binop implements all binary operators over concrete and symbolic operands.
func (i *interpreter) binop(op token.Token, t types.Type, x, y value) value {
	if !isSym(x) && !isSym(y) {
		if (op == token.QUO || op == token.REM) && isZeroInt(y) {
			panic(targetPanic{i.runtimeError("integer divide by zero")})
		}
		return binopConcrete(i, op, t, x, y)
	}
	tt := i.sym.tt
	// strings
	_, sxs := x.(symStr)
	_, sys := y.(symStr)
	if sxs || sys {
		switch op {
		case token.EQL:
			return wrapBool(i.sym.strEq(x, y))
		case token.NEQ:
			return wrapBool(tt.not(i.sym.strEq(x, y)))
		}
		return binopConcrete(i, op, t, i.concreteStr(x), i.concreteStr(y))
	}
	// bools
	_, bx := x.(symBool)
	_, by := y.(symBool)
	if bx || by {
		a, b := i.sym.boolTerm(x), i.sym.boolTerm(y)
		switch op {
		case token.EQL:
			return wrapBool(tt.eq(a, b))
		case token.NEQ:
			return wrapBool(tt.not(tt.eq(a, b)))
		}
		panic("binop: unsupported symbolic bool operator " + op.String())
	}
	// shifts: operand kinds may differ
	if op == token.SHL || op == token.SHR {
		return i.symShift(op, x, y)
	}
	a, ka := i.sym.intTerm(x)
	b, kb := i.sym.intTerm(y)
	if a.bits != b.bits {
		panic(fmt.Sprintf("binop %s: operand width mismatch %v/%v", op, ka, kb))
	}
	k := ka
	if _, ok := x.(symInt); !ok {
		k = kb
	}
	_, signed := kindBits(k)
	cmp := func(so, uo opcode, swap, neg bool) value {
		o := uo
		if signed {
			o = so
		}
		var r *term
		if swap {
			r = tt.bvcmp(o, b, a)
		} else {
			r = tt.bvcmp(o, a, b)
		}
		if neg {
			r = tt.not(r)
		}
		return wrapBool(r)
	}
	switch op {
	case token.ADD:
		return wrapInt(tt.bvbin(opBvAdd, a, b), k)
	case token.SUB:
		return wrapInt(tt.bvbin(opBvSub, a, b), k)
	case token.MUL:
		return wrapInt(tt.bvbin(opBvMul, a, b), k)
	case token.QUO, token.REM:
		if i.sym.decide(tt.eq(b, tt.bv(0, b.bits))) {
			panic(targetPanic{i.runtimeError("integer divide by zero")})
		}
		var o opcode
		switch {
		case op == token.QUO && signed:
			o = opBvSDiv
		case op == token.QUO:
			o = opBvUDiv
		case signed:
			o = opBvSRem
		default:
			o = opBvURem
		}
		return wrapInt(tt.bvbin(o, a, b), k)
	case token.AND:
		return wrapInt(tt.bvbin(opBvAnd, a, b), k)
	case token.OR:
		return wrapInt(tt.bvbin(opBvOr, a, b), k)
	case token.XOR:
		return wrapInt(tt.bvbin(opBvXor, a, b), k)
	case token.AND_NOT:
		return wrapInt(tt.bvbin(opBvAnd, a, tt.bvun(opBvNot, b)), k)
	case token.EQL:
		return wrapBool(tt.eq(a, b))
	case token.NEQ:
		return wrapBool(tt.not(tt.eq(a, b)))
	case token.LSS:
		return cmp(opBvSlt, opBvUlt, false, false)
	case token.LEQ:
		return cmp(opBvSle, opBvUle, false, false)
	case token.GTR:
		return cmp(opBvSlt, opBvUlt, true, false)
	case token.GEQ:
		return cmp(opBvSle, opBvUle, true, false)
	}
	panic("binop: unsupported symbolic operator " + op.String())
}

func (i *interpreter) symShift(op token.Token, x, y value) value {
	tt := i.sym.tt
	a, ka := i.sym.intTerm(x)
	c, kc := i.sym.intTerm(y)
	_, xsigned := kindBits(ka)
	_, csigned := kindBits(kc)
	if csigned {
		if i.sym.decide(tt.bvcmp(opBvSlt, c, tt.bv(0, c.bits))) {
			panic(targetPanic{i.runtimeError("negative shift amount")})
		}
	}
	w := a.bits
	var big *term = tt.fls
	var cw *term
	switch {
	case c.bits == w:
		cw = c
	case c.bits < w:
		cw = tt.ext(false, c, w)
	default:
		big = tt.not(tt.bvcmp(opBvUlt, c, tt.bv(uint64(w), c.bits)))
		cw = tt.extract(c, w)
	}
	var o opcode
	var over *term
	switch {
	case op == token.SHL:
		o, over = opBvShl, tt.bv(0, w)
	case xsigned:
		o = opBvAshr
		over = tt.bvbin(opBvAshr, a, tt.bv(uint64(w-1), w))
	default:
		o, over = opBvLshr, tt.bv(0, w)
	}
	return wrapInt(tt.ite(big, over, tt.bvbin(o, a, cw)), ka)
}

// iteValue merges two scalar values under condition c; ok=false if they
// cannot be merged (non-scalar or differently shaped).
func (i *interpreter) iteValue(c *term, a, b value) (value, bool) {
	tt := i.sym.tt
	switch a.(type) {
	case bool, symBool:
		switch b.(type) {
		case bool, symBool:
			return wrapBool(tt.ite(c, i.sym.boolTerm(a), i.sym.boolTerm(b))), true
		}
		return nil, false
	case symInt:
		ta, ka := i.sym.intTerm(a)
		if _, ok := kindOfValue(b); !ok {
			if _, ok := b.(symInt); !ok {
				return nil, false
			}
		}
		tb, kb := i.sym.intTerm(b)
		if ka != kb {
			return nil, false
		}
		return wrapInt(tt.ite(c, ta, tb), ka), true
	case string, symStr:
		switch b.(type) {
		case string, symStr:
		default:
			return nil, false
		}
		if sa, ok := a.(string); ok {
			if sb, ok := b.(string); ok && sa == sb {
				return a, true
			}
		}
		// merge tables
		var table []string
		pos := map[string]int{}
		add := func(s string) int {
			if p, ok := pos[s]; ok {
				return p
			}
			pos[s] = len(table)
			table = append(table, s)
			return len(table) - 1
		}
		idxOf := func(v value) *term {
			switch v := v.(type) {
			case string:
				return tt.bv(uint64(add(v)), 8)
			case symStr:
				var t *term
				for k := len(v.table) - 1; k >= 0; k-- {
					p := tt.bv(uint64(add(v.table[k])), 8)
					if t == nil {
						t = p
					} else {
						t = tt.ite(tt.eq(v.idx, tt.bv(uint64(k), 8)), p, t)
					}
				}
				return t
			}
			panic("unreachable")
		}
		ia := idxOf(a)
		ib := idxOf(b)
		return symStr{tt.ite(c, ia, ib), table}, true
	}
	if ka, ok := kindOfValue(a); ok {
		switch b.(type) {
		case symInt:
		default:
			kb, ok := kindOfValue(b)
			if !ok || ka != kb {
				return nil, false
			}
		}
		ta, _ := i.sym.intTerm(a)
		tb, kb := i.sym.intTerm(b)
		if ka != kb {
			return nil, false
		}
		return wrapInt(tt.ite(c, ta, tb), ka), true
	}
	// identical non-scalars
	switch a := a.(type) {
	case *value:
		if bb, ok := b.(*value); ok && a == bb {
			return a, true
		}
	case structure:
		if bb, ok := b.(structure); ok && len(a) == 0 && len(bb) == 0 {
			return a, true
		}
	}
	return nil, false
}
