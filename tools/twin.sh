#!/bin/sh
# tools/twin.sh [ids...]: reachability twins. For every assertion label a spec requires,
# the run is repeated with that assertion replaced by assert(false); it must come back
# as a violation that replays natively (TWIN-OK). Self-test of harness reachability and
# of the violation pipeline; not a registered check.
IDS=${*:-"C01 C02 C03 C04 C05 C06 C07 C08 C09 C10 C11 C12 C13 C14 C15 C16 C17 C18 C19 C20"}
BIN=${SYMGO_BIN:-/verif/bin/symgo}
export VERIF_DIR=${TWIN_DIR:-/tmp/twin}
mkdir -p $VERIF_DIR && ln -sfn /verif/harness $VERIF_DIR/harness && cp /verif/known_findings.json $VERIF_DIR/
for id in $IDS; do
  $BIN labels $id | while IFS="$(printf '\t')" read run label; do
    timeout 1800 $BIN check -workers 16 -run "$run" -twin "$label" $id quick 2>&1 | grep "^TWIN" | sed "s/$/ (run $run)/"
  done
done
