#!/bin/sh
# tools/run_all.sh quick|thorough [ids...]  - runs the registered checks in /verif against /repo, one after the other
TIER=$1; shift
IDS=${*:-"C01 C02 C03 C04 C05 C06 C07 C08 C09 C10 C11 C12 C13 C14 C15 C16 C17 C18 C19 C20"}
cd /verif
for id in $IDS; do
  s=$(date +%s)
  out=$(./check $id $TIER 2>&1 | grep "^PASS\|^VIOLATION\|^INCONCLUSIVE\|^KNOWN" | tail -3 | cut -c1-250)
  echo "$id $(( $(date +%s) - s ))s :: $out"
done
