#!/usr/bin/env python3
"""Prints the as-built cost table of DESIGN.md 0.7 from evidence files.
usage: bounds_table.py <quick evidence dir> [<thorough evidence dir>]"""
import json, sys, os

def load(d):
    out = {}
    if not d or not os.path.isdir(d):
        return out
    for f in sorted(os.listdir(d)):
        if f.endswith('.json'):
            e = json.load(open(os.path.join(d, f)))
            out[e['property_id']] = e
    return out

q = load(sys.argv[1])
t = load(sys.argv[2]) if len(sys.argv) > 2 and not sys.argv[2].startswith('--') else {}
print("| id | runs | quick: paths / solver queries / wall | thorough: paths / queries / wall |")
print("|---|---|---|---|")
tot = 0.0
for pid in sorted(q):
    e = q[pid]; c = e['coverage']
    runs = len(c.get('bounds', []))
    tot += e.get('wall_s', 0)
    row = "| %s | %d | %s / %s / %.0f s |" % (pid, runs, format(c['states'], ','), format(c['solver_queries'], ','), e.get('wall_s', 0))
    if pid in t and t[pid].get('tier') == 'thorough':
        ct = t[pid]['coverage']
        row += " %s / %s / %.0f s |" % (format(ct['states'], ','), format(ct['solver_queries'], ','), t[pid].get('wall_s', 0))
    else:
        row += " - |"
    print(row)
print()
print("quick tier total: %.0f s" % tot)

if '--bounds' in sys.argv:
    print()
    for pid in sorted(q):
        print("* **%s**" % pid)
        tb = t.get(pid, {}).get('coverage', {}).get('bounds', []) if t.get(pid, {}).get('tier') == 'thorough' else []
        for k, b in enumerate(q[pid]['coverage'].get('bounds', [])):
            print("  * quick `%s`" % b)
