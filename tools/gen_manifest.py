#!/usr/bin/env python3
"""Regenerates /verif/MANIFEST.json from the table below (keeps it valid)."""
import json, subprocess, sys
ALL = ["C%02d" % i for i in range(1, 21)]
TECH = "symbolic execution of go/ssa + SMT (z3, QF_BV), bounded; native replay of models"
NOTE = ("trusted: go/ssa lowering of /repo, the symgo interpreter and its stub list (validated on every run by replaying "
        "sampled paths and every counterexample natively against the real build), z3 4.8.12")
CLAIMED = {
 "C01": ("every helper answering questions about the desired ordinal set agrees with the reference definition D(r,S), for all r<=R and up to K arbitrary int32 slots plus malformed annotations, and still does when the same annotation text is evaluated a second time on another object at a larger replica count; decided per path by z3", "5/C01"),
 "C03": ("one reconcile from an arbitrary symbolic snapshot (<=N pods, r<=R, <=K slots, any policy/strategy/partition/health/revision mix): every pod delete in the API log has one of the three reasons of the statement", "5/C03"),
 "C04": ("same exploration as C03 incl. sets being deleted: every pod create is for a vacant desired ordinal, never a slot, never for a deleting set", "5/C04"),
 "C05": ("one OrderedReady reconcile from an arbitrary snapshot: at most one ordinal touched, predecessors healthy, scale-in from the top, update only when nothing is left to scale in", "5/C05"),
 "C07": ("one reconcile with several revisions in flight and an arbitrary non-negative int32 partition: no update delete below the partition, highest first, created pods carry the revision their ordinal calls for, OnDelete never restarts", "5/C07"),
 "C12": ("every status write of one reconcile from an arbitrary snapshot with arbitrary stored status/generation: counter bounds over int32 with wrap-around, observedGeneration, currentRevision rule, census at a quiescent step", "5/C12"),
 "C14": ("one Parallel reconcile from an arbitrary snapshot: all vacancies filled and all live condemned pods deleted in the same reconcile; at most one update delete", "5/C14"),
 "C10": ("one sync(key) over every combination of pod owner x label match x name shape x terminating and of revision owner x labels x upgrade marker, with a cached set that may be stale w.r.t. the API: adopt/release patches, foreign objects never written or counted, cached objects frozen (engine-level write monitor)", "5/C10"),
 "C11": ("one sync(key) with the pause annotation or a deletion timestamp raised in every explored state (orphans waiting, unhealthy pods, slots): empty write log when paused; no pod/claim write and no adoption when deleting", "5/C11"),
 "C15": ("one sync(key) inside recover() for every spec the CRD admits within the modelled dimensions (unknown policy/strategy strings, rollingUpdate absent / without partition / arbitrary int32 partition, arbitrary history limit, stale status, empty and DoesNotExist selectors) times small pod populations incl. odd names and nil labels: no panic", "5/C15"),
 "C06": ("pods built by the real constructors for every ordinal/partition/claim-template shape carry the stable identity and storage of the statement; the real pod control over fake clients with every single failure of claim lookups, claim creates and the pod create, in every claim-map iteration order: claims first, failure blocks the pod, claims never rewritten, a re-created ordinal gets the same claims", "5/C06"),
 "C08": ("revision bookkeeping (getStatefulSetRevisions, create/update of revisions, collision loop) over stored histories with arbitrary revision numbers, engineered name collisions and collision counts, a stored status.updateRevision that may be stale (names any stored revision or none), followed by a reconcile after each kind of non-template edit; codec-dependent clauses are not decided (see level_note)", "5/C08"),
 "C13": ("sync(key) over revision populations with every owner x label x upgrade-marker combination, arbitrary revision numbers and an arbitrary int32 history limit: every revision delete in the log is justified, oldest first, each revision once; also in a reconcile that re-uses and renumbers an old revision (rollback)", "5/C13"),
 "C16": ("the real constructor NewStatefulSetController wired to recording informers, then one event of every shape (pods: owner x labels x resource version x deletion timestamp x tombstones; sets: add, delete, tombstone, update with spec/status/annotation-only/label changes, pause raised or lowered, resync) delivered through the handlers it registered, against the real lister: the enqueued keys are exactly those the statement lists; one worker step with an API failure at any call: AddRateLimited vs Forget, Done always", "5/C16"),
 "C17": ("the real Upgrade helper over fake clients for every selector shape / revision population / pre-existing Advanced object, interrupted by a failure (five kinds, incl. lost responses) or a crash at any API call and re-run: ordering of the built-in delete, orphan propagation, relabelling, no pod/claim call, same final state", "5/C17"),
 "C19": ("clause (a): the real FromBuiltinStatefulSet / ToBuiltinStatefulSet / ToBuiltinStetefulsetList over the engine's structural model of encoding/json, on objects varied area by area (metadata, spec, pod template, status) with symbolic leaves: read back equals what was written in every field the Advanced API models, apps/v1 typing, lists keep length, order and list metadata, no conversion error; clauses (b) and (c): the annotation helpers as lossless codecs over sets of arbitrary int32 (round trip, union, removal, other annotations untouched, pause flag), and SetObjectDefaults_StatefulSet applied twice vs once on objects varied area by area over the modelled schema with arbitrary int32/int64 field values", "5/C19"),
 "C02": ("bounded unrolling, stated as such: from every symbolic start snapshot within the bounds, rounds of {cache refresh, real sync(key), fair kubelet step} reach a fixed point within 3(N+R+K)+4 rounds; there the pods are exactly the desired ordinals, Ready, updated at/above the partition, status counters equal spec.replicas; two further reconciles issue no write", "5/C02"),
 "C09": ("one sync(key) from a symbolic snapshot during which any one API call fails (up to six error kinds incl. lost responses) or the process dies at that call: unrecovered failures are reported as errors, the partial write log passes the C03/C04 monitors, and the fault-free loop of C02 afterwards reaches the same converged predicate; in one run the same start state is also run without failures and the two final states (pods, their revisions, claims, status) are compared", "5/C09"),
 "C18": ("decided part only: three reconciles on the world the upgrade helper leaves behind find, label-sync and adopt the marker-carrying revisions, create no revision, delete no pod and resolve the update revision to the adopted one - under the stated assumption that the computed patch equals the recorded data", "5/C18"),
 "C20": ("the real newHijackWatch/receive/Stop/ResultChan between a source goroutine and a consumer under a cooperative scheduler whose choice of the next runnable goroutine at every synchronisation operation is symbolic: order/type/payload of relayed events incl. Error events, no panic, and after Stop or source end the channel is closed and no goroutine is left, for every interleaving within the preemption bound", "5/C20"),
}
NA = {}
EXTRA_NOTE = {
 "C08": " NOT decided: the clauses 'applying the recorded data reproduces the template exactly' and 'only the template influences the patch' (runtime.Encode / strategic-merge-patch / encoding/json are replaced by models during symbolic execution and only exercised by the native replay of sampled paths).",
 "C18": " NOT decided: byte-identity of the revision data with the built-in controller's for every pod template - it is the stated ASSUMPTION of the decided part (codec path modelled); seeded changes inside that path (seeded/C18-patch-with-usenumber, seeded/C18-r6-patch-without-html-escaping) are not detected.",
 "C19": " Clause (a) is decided over the fields varied in the round-trip runs, with encoding/json replaced by a structural model during symbolic execution (validated on every run by the native replay with the real package); template content that is not varied there (volumes, probes, affinity, ...) and the composition with defaulting inside the hijack client's Create/Update are outside the claim.",
 "C02": " Bounded unrolling only: liveness beyond the stated number of rounds and pods is not claimed.",
 "C20": " Interleavings are explored up to the stated preemption bound; natively the schedule is the Go scheduler's, so schedule-dependent counterexamples are replayed in their 'settled' variant (the consumer pauses before Stop) or, when the model contains scheduler decisions, by replaying the same inputs 25 times with random sub-millisecond pauses in the harness's source and consumer: any native failure of the assertion confirms the violation, none leaves the run inconclusive.",
 "C09": " One failing call per reconcile in the main runs, two in the 'two-failures' run; the recovery rounds are fault free.",
}
def main():
    m = {
     "version": 1,
     "setup_cmd": "cd /verif/engine && GOFLAGS=-mod=mod GOPROXY=off GOSUMDB=off GOTOOLCHAIN=local go build -o ../bin/symgo ./cmd/symgo",
     "hooks": {
      "guard": "verif",
      "enable": "no source hooks: harness files (//go:build verif) are injected into the packages under test with the go command's -overlay mechanism, both for loading into the symbolic executor and for native replay (go test -tags verif -overlay ...)",
      "baseline_off_cmd": "for m in . ./client; do (cd /repo/$m && GOFLAGS=-mod=mod GOPROXY=off go test -json -vet=off -count=1 -timeout 25m ./...); done",
      "source_commits": [],
      "add_only": True
     },
     "engines": [{"name": "symgo", "path": "/verif/engine", "serves_properties": sorted(CLAIMED),
       "kind_free_text": "symbolic execution of go/ssa (golang.org/x/tools v0.29.0) of the real /repo packages, bit-vector SMT queries to z3 4.8.12 (one incremental process per worker), native replay of models through go test -overlay"}],
     "checks": [],
     "not_applicable": [],
     "notes": "fix: commits in /repo and their findings are listed in /verif/known_findings.json"
    }
    for pid in sorted(CLAIMED):
        text, ref = CLAIMED[pid]
        m["checks"].append({
          "property_id": pid,
          "quick_cmd": "./check %s quick" % pid,
          "thorough_cmd": "./check %s thorough" % pid,
          "evidence_file": "/verif/evidence/%s.json" % pid,
          "replay_cmd_template": "./check replay {path}",
          "engine": "symgo",
          "level_claimed": {"category": "model_checking", "text": "bounded symbolic model checking of the real code: " + text, "design_ref": "DESIGN.md section " + ref},
          "level_note": NOTE + EXTRA_NOTE.get(pid, ""),
          "technique": TECH,
        })
    for pid in ALL:
        if pid not in CLAIMED:
            m["not_applicable"].append({"property_id": pid, "reason": NA.get(pid, "check under construction (DESIGN.md section 9 build order); not claimed until its harness has run clean on the unchanged tree")})
    json.dump(m, open("/verif/MANIFEST.json", "w"), indent=1)
main()
