#!/usr/bin/env python3
"""Writes seeded/<name>/meta.json for the round-3 seeds from a trial log (tools/try_seed.sh verdict lines).
usage: r3meta.py <trial log>"""
import json, re, sys, os

SEEDS = {
 "C01-r3-min-ordinal-first-gap": ("C01", "GetMinPodOrdinal rewritten to walk the sorted raw slots from 0 and return the first gap",
   "a negative slot together with slot 0 and replicas >= 1 (the negative slot ends the walk)", ""),
 "C02-r3-truncate-forgets-update-revision": ("C02", "truncateHistory no longer counts the update revision as live",
   "revisionHistoryLimit 0, an edited template and a held-back update (OnDelete or partition >= replicas): the update revision is deleted and re-created forever",
   "needed the new run C02/converge-without-history; C13 caught it unchanged"),
 "C03-r3-unknown-phase-recreated": ("C03", "isFailed||isSucceeded folded into 'created and neither Pending nor Running'",
   "a pod in phase Unknown", "needed the Unknown phase in the symbolic pod health domain (step and sync harnesses)"),
 "C04-r3-terminating-failed-pod-not-deleted": ("C04", "the delete of a Failed/Succeeded replica is skipped when it is already terminating, the re-create is still issued",
   "a desired pod that is Failed or Succeeded and terminating", ""),
 "C05-r3-gates-merged-first-unhealthy": ("C05", "the two OrderedReady gates merged into 'replicas[i] == firstUnhealthyPod'",
   "a delete slot that puts an unhealthy condemned pod below an unhealthy desired pod", ""),
 "C06-r3-template-from-update-label-current": ("C06", "newVersionedStatefulSetPod builds from the update template but labels with the current revision",
   "two live revisions and a pod created below the partition", ""),
 "C07-r3-current-replicas-gates-partition": ("C07", "the 'ordinal < status.currentReplicas' test also gates the partition branch of newVersionedStatefulSetPod",
   "a pod created below the partition at an ordinal >= status.currentReplicas", ""),
 "C08-r3-renumber-outside-retry": ("C08", "updateControllerRevision assigns the new number outside the RetryOnConflict closure",
   "a rollback whose renumbering write is rejected once with a conflict", "needed the new run C08/revisions-conflict-on-renumbering"),
 "C09-r3-status-written-on-error": ("C09", "UpdateStatefulSet persists the partly filled status when updateStatefulSet returned an error",
   "a Failed pod below the partition whose delete succeeds and whose re-create fails: the failing reconcile records 'update complete'",
   "needed the new run C09/failure-compared-with-a-run-without-failures; C12 caught it unchanged"),
 "C10-r3-cached-set-not-copied": ("C10", "syncStatefulSet passes the lister's object to UpdateStatefulSet without DeepCopy",
   "a claim template with labels of its own and a reconcile that creates a pod (the selector labels are written into the cached template)",
   "needed labels on the harness's claim template"),
 "C11-r3-unpause-event-dropped": ("C11", "the set informer's UpdateFunc returns early when the OLD object is paused",
   "the update event that removes the pause annotation", "needed the C16 wiring run (real constructor, events through the registered handlers)"),
 "C12-r3-updated-replicas-not-compared": ("C12", "inconsistentStatus no longer compares updatedReplicas",
   "a reconcile whose computed status differs from the stored one only in updatedReplicas", "needed the census assertion for a status left unwritten"),
 "C13-r3-live-by-pointer-not-name": ("C13", "truncateHistory keeps current/update alive by pointer comparison instead of by name",
   "a rollback (the update revision is then a DeepCopy, not an element of the listed slice) with more unused history than the limit",
   "needed the new run C13/history-rollback; C08 caught it unchanged"),
 "C14-r3-parallel-update-ignores-terminating": ("C14", "the update walk waits on !isRunningAndReady instead of !isHealthy",
   "Parallel policy, the highest outdated pod already terminating but still Running and Ready", "needed the one-at-a-time rule (monitor of C07) in the C14 run; C07 caught it unchanged"),
 "C15-r3-labels-nil-guard-moved": ("C15", "the nil-map guard of updateIdentity moved into initIdentity",
   "a selector that matches pods without labels ({} or DoesNotExist) and a label-less member pod", "needed the new run C15/sync-selector-shapes"),
 "C16-r3-metadata-only-update-not-enqueued": ("C16", "the set informer's UpdateFunc skips updates with equal generation and status",
   "an annotation-only update (delete-slots, pause flag)", "needed the C16 wiring run"),
 "C17-r3-background-delete-when-no-revisions-listed": ("C17", "Upgrade deletes with background propagation when status.replicas == 0 and the selector lists no revisions",
   "a set scaled to zero whose first run was interrupted after relabelling", "needed the scaled-to-zero dimension"),
 "C18-r3-equal-revision-compares-hash-labels": ("C18", "EqualRevision's dead hash-label shortcut 'repaired' to compare the label strings",
   "a history recorded under an older collision count than the status carries", "needed the collision-count dimension in C18/migrate; C08 caught it unchanged"),
 "C19-r3-list-meta-dropped": ("C19", "ToBuiltinStetefulsetList converts item by item and forgets ListMeta",
   "a paged list (continue token, resourceVersion)", "needed the structural JSON model and the new run C19/list-round-trip"),
 "C20-r3-bookmark-stub-object": ("C20", "Bookmark events are relayed as a stub object carrying only the resource version",
   "a bookmark with annotations (k8s.io/initial-events-end)", ""),
}

def main():
    log = open(sys.argv[1]).read().splitlines()
    res = {}
    for l in log:
        m = re.match(r'(\S+) \[(C\d\d)\] demo_fails=(\d+) existing_ok=(\d+) :: (\w+) property=(C\d\d) tier=(\w+) (.*)', l)
        if not m:
            continue
        name, ck, dm, ex, verdict, _, tier, rest = m.groups()
        res.setdefault(name, {})[f"{ck} {tier}"] = (verdict, int(dm), int(ex), rest.split(' validated')[0])
    for name, (prop, change, needs, note) in SEEDS.items():
        d = os.path.join('/verif/seeded', name)
        r = res.get(name, {})
        caught = {k: f"VIOLATION property={k.split()[0]} tier={k.split()[1]} {v[3]}" for k, v in r.items() if v[0] == 'VIOLATION'}
        missed = {k: f"{v[0]} {v[3]}" for k, v in r.items() if v[0] != 'VIOLATION'}
        ok = all(v[1] > 0 and v[2] == 2 for v in r.values()) if r else False
        meta = {
            "property": prop, "round": 3,
            "source": "independent sub-agent given only the property text, a scratch worktree and the one-line descriptions of the earlier changes for the same property",
            "change": change, "needs": needs,
            "confirmed": ("tools/try_seed.sh seeded/%s quick <check>: compiles, the 109 existing tests pass with it, the demonstration test fails with it and passes without" % name) if ok else "NOT CONFIRMED",
            "caught_by": caught,
        }
        if missed:
            meta["not_caught_by"] = missed
        if note:
            meta["note"] = note
        json.dump(meta, open(os.path.join(d, 'meta.json'), 'w'), indent=1)
        print(name, "caught" if caught else "MISSED", sorted(caught))

main()
