#!/usr/bin/env python3
"""Writes seeded/<name>/meta.json for the round-3 and round-4 seeds from trial logs (tools/try_seed.sh verdict lines).
usage: r3meta.py <trial log>..."""
import json, re, sys, os

SEEDS = {
 "C01-r3-min-ordinal-first-gap": ("C01", "GetMinPodOrdinal rewritten to walk the sorted raw slots from 0 and return the first gap",
   "a negative slot together with slot 0 and replicas >= 1 (the negative slot ends the walk)", ""),
 "C02-r3-truncate-forgets-update-revision": ("C02", "truncateHistory no longer counts the update revision as live",
   "revisionHistoryLimit 0, an edited template and a held-back update (OnDelete or partition >= replicas): the update revision is deleted and re-created forever",
   "needed the new run C02/converge-without-history; C13 caught it unchanged"),
 "C03-r3-unknown-phase-recreated": ("C03", "isFailed||isSucceeded folded into 'created and neither Pending nor Running'",
   "a pod in phase Unknown", "needed the Unknown phase in the symbolic pod health domain (step and sync harnesses)"),
 "C04-r3-terminating-failed-pod-not-deleted": ("C04", "the delete of a Failed/Succeeded replica is skipped when it is already terminating, the re-create is still issued",
   "a desired pod that is Failed or Succeeded and terminating", ""),
 "C05-r3-gates-merged-first-unhealthy": ("C05", "the two OrderedReady gates merged into 'replicas[i] == firstUnhealthyPod'",
   "a delete slot that puts an unhealthy condemned pod below an unhealthy desired pod", ""),
 "C06-r3-template-from-update-label-current": ("C06", "newVersionedStatefulSetPod builds from the update template but labels with the current revision",
   "two live revisions and a pod created below the partition", ""),
 "C07-r3-current-replicas-gates-partition": ("C07", "the 'ordinal < status.currentReplicas' test also gates the partition branch of newVersionedStatefulSetPod",
   "a pod created below the partition at an ordinal >= status.currentReplicas", ""),
 "C08-r3-renumber-outside-retry": ("C08", "updateControllerRevision assigns the new number outside the RetryOnConflict closure",
   "a rollback whose renumbering write is rejected once with a conflict", "needed the new run C08/revisions-conflict-on-renumbering"),
 "C09-r3-status-written-on-error": ("C09", "UpdateStatefulSet persists the partly filled status when updateStatefulSet returned an error",
   "a Failed pod below the partition whose delete succeeds and whose re-create fails: the failing reconcile records 'update complete'",
   "needed the new run C09/failure-compared-with-a-run-without-failures; C12 caught it unchanged"),
 "C10-r3-cached-set-not-copied": ("C10", "syncStatefulSet passes the lister's object to UpdateStatefulSet without DeepCopy",
   "a claim template with labels of its own and a reconcile that creates a pod (the selector labels are written into the cached template)",
   "needed labels on the harness's claim template"),
 "C11-r3-unpause-event-dropped": ("C11", "the set informer's UpdateFunc returns early when the OLD object is paused",
   "the update event that removes the pause annotation", "needed the C16 wiring run (real constructor, events through the registered handlers)"),
 "C12-r3-updated-replicas-not-compared": ("C12", "inconsistentStatus no longer compares updatedReplicas",
   "a reconcile whose computed status differs from the stored one only in updatedReplicas", "needed the census assertion for a status left unwritten"),
 "C13-r3-live-by-pointer-not-name": ("C13", "truncateHistory keeps current/update alive by pointer comparison instead of by name",
   "a rollback (the update revision is then a DeepCopy, not an element of the listed slice) with more unused history than the limit",
   "needed the new run C13/history-rollback; C08 caught it unchanged"),
 "C14-r3-parallel-update-ignores-terminating": ("C14", "the update walk waits on !isRunningAndReady instead of !isHealthy",
   "Parallel policy, the highest outdated pod already terminating but still Running and Ready", "needed the one-at-a-time rule (monitor of C07) in the C14 run; C07 caught it unchanged"),
 "C15-r3-labels-nil-guard-moved": ("C15", "the nil-map guard of updateIdentity moved into initIdentity",
   "a selector that matches pods without labels ({} or DoesNotExist) and a label-less member pod", "needed the new run C15/sync-selector-shapes"),
 "C16-r3-metadata-only-update-not-enqueued": ("C16", "the set informer's UpdateFunc skips updates with equal generation and status",
   "an annotation-only update (delete-slots, pause flag)", "needed the C16 wiring run"),
 "C17-r3-background-delete-when-no-revisions-listed": ("C17", "Upgrade deletes with background propagation when status.replicas == 0 and the selector lists no revisions",
   "a set scaled to zero whose first run was interrupted after relabelling", "needed the scaled-to-zero dimension"),
 "C18-r3-equal-revision-compares-hash-labels": ("C18", "EqualRevision's dead hash-label shortcut 'repaired' to compare the label strings",
   "a history recorded under an older collision count than the status carries", "needed the collision-count dimension in C18/migrate; C08 caught it unchanged"),
 "C19-r3-list-meta-dropped": ("C19", "ToBuiltinStetefulsetList converts item by item and forgets ListMeta",
   "a paged list (continue token, resourceVersion)", "needed the structural JSON model and the new run C19/list-round-trip"),
 "C20-r3-bookmark-stub-object": ("C20", "Bookmark events are relayed as a stub object carrying only the resource version",
   "a bookmark with annotations (k8s.io/initial-events-end)", ""),
}

SEEDS4 = {
 "C01-r4-unmarshal-error-ignored": ("C01", "GetDeleteSlots ignores the error of json.Unmarshal and inserts whatever was decoded",
   "a well-formed JSON list with an element that is not an int32 ([2, 2147483648], [0, \"1\"]): the decoder keeps the other elements and a zero", ""),
 "C02-r4-slots-iterated-unsorted": ("C02", "GetMaxReplicaCountAndDeleteSlots iterates the slot set with UnsortedList instead of List",
   "a slot at or above replicas that is valid only because a lower slot widens the range, and an unlucky map iteration order", "the C01 kernel catches it (insertion order already differs from sorted order); map-order exploration was added for the helpers it names; C02 itself (controller level, Go map order) does not"),
 "C03-r4-ondelete-with-leftover-partition-rolls": ("C03", "the OnDelete early return folded into the updateMin computation as an else-if behind the partition branch",
   "strategy OnDelete with a left-over rollingUpdate.partition block and an edited template", ""),
 "C04-r4-slots-parsed-as-unsigned": ("C04", "GetDeleteSlots unmarshals into []uint32",
   "a negative entry next to valid ones: the whole annotation is dropped and the listed slots are re-populated", "the engine's JSON intercept for the symbolic slot list was generalised to other integer element types; before that the run ended in an engine trap (inconclusive)"),
 "C05-r4-claim-skips-terminating-owned-pods": ("C05", "ClaimObject ignores every object that is being deleted, owned ones too (vendored controller_ref_manager)",
   "a sync while an owned pod is terminating and more work is waiting behind it", "the change alters the snapshot sync hands to UpdateStatefulSet, not UpdateStatefulSet"),
 "C06-r4-hostname-kept-from-template": ("C06", "initIdentity sets hostname and subdomain only when they are empty",
   "a pod template that carries spec.hostname / spec.subdomain", "needed the new run C06/identity-with-template-fields"),
 "C07-r4-ondelete-return-behind-partition-branch": ("C07", "the OnDelete early return is only reached when there is no rollingUpdate.partition",
   "strategy OnDelete with a left-over partition block", ""),
 "C08-r4-newest-by-number-not-data": ("C08", "getStatefulSetRevisions decides 'the template's revision is the newest' by comparing revision numbers",
   "two stored revisions of different data sharing the highest number", "needed the new run C08/revisions-tied-numbers"),
 "C09-r4-claim-errors-overwritten": ("C09", "createPersistentVolumeClaims keeps one err variable that every iteration overwrites",
   "two claim templates and a failure on a claim that is not visited last", "caught by C06 (two templates, all map orders); the C09 harness has one claim template"),
 "C10-r4-selector-fast-path-drops-expressions": ("C10", "sync builds the pod selector from matchLabels alone when matchLabels is non-empty",
   "a selector with matchLabels and matchExpressions and a pod that satisfies only the labels", "needed the new run C10/pods-selector-with-expression"),
 "C11-r4-deleting-set-releases-unmatched-pod": ("C11", "ClaimObject releases a non-matching owned object unless BOTH the controller and the object are being deleted",
   "a set being deleted with an owned, non-terminating pod that no longer matches", ""),
 "C12-r4-current-replicas-always-decremented": ("C12", "the update delete decrements status.currentReplicas whatever the pod's revision",
   "a pod at a third revision deleted for update", ""),
 "C13-r4-dedupe-per-query-only": ("C13", "ListRevisions de-duplicates within each of its two queries only",
   "an adopted revision carrying both the selector labels and the upgrade marker", ""),
 "C14-r4-no-scale-down-when-count-fits": ("C14", "condemned = nil when len(pods) <= spec.replicas",
   "as many vacancies as pods outside the desired set", ""),
 "C15-r4-equal-revision-nil-hash-deref": ("C15", "EqualRevision dereferences both parsed hash labels when either is non-nil",
   "a revision whose hash label is all digits next to one whose label is not", "needed the all-digit hash label dimension in C15/sync-selector-shapes"),
 "C16-r4-owner-ref-full-gvk": ("C16", "resolveControllerRef compares the full GroupVersionKind of the owner reference",
   "an owner reference written through the other served version (apps.pingcap.com/v1alpha1)", "needed the owner variant 'same set, other served API version'"),
 "C17-r4-marked-revisions-skipped": ("C17", "Upgrade skips revisions that already carry the marker",
   "a set that went to the Advanced API and back: revisions match the selector and carry the marker", "needed the 'revision already marked' dimension"),
 "C18-r4-upgrade-defaults-template": ("C18", "Upgrade runs SetObjectDefaults_StatefulSet on the converted object",
   "a stored template lacking a field the vendored defaults fill in", "caught by C17 after 'same spec' became a field-by-field comparison of the whole spec; the C18 check starts after the upgrade"),
 "C19-r4-grace-period-zero-treated-as-unset": ("C19", "SetDefaults_PodSpec treats terminationGracePeriodSeconds 0 like nil",
   "an explicit grace period of 0", "needed the oracle 'explicit pod-template values survive defaulting'"),
 "C20-r4-relay-ends-after-error-event": ("C20", "the relay goroutine returns after relaying an Error event",
   "an Error event that is not the last event", ""),
}

SEEDS5 = {
 "C02-r5-collision-returns-error-without-persisting-count": ("C02", "createControllerRevision returns an error on a name collision after bumping the local collision count instead of retrying",
   "a revision name collision: the bumped count is never persisted, every reconcile fails the same way", ""),
 "C06-r5-pod-name-regex-anchored-to-dns-label": ("C06", "the pod-name regular expression anchored to a DNS label",
   "a set name with a dot: the ordinal of every pod parses as -1", "needed the dotted set name in C06/identity-with-template-fields"),
 "C09-r5-wrapped-notfound-swallowed-on-adoption": ("C09", "two error wrappers in the vendored ref manager switched to %w, so a NotFound from the can-adopt re-read looks like 'the pod is gone' and is ignored",
   "an orphan pod waiting for adoption and a NotFound on the uncached read of the set", "needed the new run C09/failure-with-orphan-pods"),
 "C12-r5-condemned-pods-not-counted": ("C12", "condemned pods are neither counted in currentReplicas/updatedReplicas nor un-counted when deleted",
   "a live condemned pod at a fixed point (OrderedReady scale-in blocked by an unhealthy pod): needs two pods", "quick has one pod in the C12 run; two pods are in the thorough tier"),
 "C13-r5-no-trim-up-to-limit-plus-two": ("C13", "UpdateStatefulSet skips truncateHistory while len(revisions) <= limit+2",
   "steady state with limit+1 unused revisions", ""),
 "C16-r5-lister-precheck-skips-negative-selectors": ("C16", "GetPodStatefulSets skips a set unless the pod carries every label key its selector mentions (generated lister expansion)",
   "a NotIn / DoesNotExist selector and an orphan pod lacking the key", "needed the new run C16/events-negative-selector"),
 "C17-r5-preexisting-spec-copied-partially": ("C17", "Upgrade copies only replicas, template and updateStrategy onto a pre-existing Advanced object",
   "a pre-existing Advanced StatefulSet that differs in serviceName, podManagementPolicy or revisionHistoryLimit", "needed the 'stale pre-existing object' dimension"),
 "C19-r5-managed-fields-dropped-in-conversion": ("C19", "metadata.managedFields cleared inside FromBuiltinStatefulSet",
   "an object with managedFields (every object read from a real API server)", "needed the managedFields dimension in C19/round-trip-area0"),
}

def main():
    log = []
    for f in sys.argv[1:]:
        log += open(f).read().splitlines()
    res = {}
    for l in log:
        m = re.match(r'(\S+) \[(C\d\d)\] demo_fails=(\d+) existing_ok=(\d+) :: (\w+) property=(C\d\d) tier=(\w+) (.*)', l)
        if not m:
            continue
        name, ck, dm, ex, verdict, _, tier, rest = m.groups()
        res.setdefault(name, {})[f"{ck} {tier}"] = (verdict, int(dm), int(ex), rest.split(' validated')[0])
    both = [(k, v, 3) for k, v in SEEDS.items()] + [(k, v, 4) for k, v in SEEDS4.items()] + [(k, v, 5) for k, v in SEEDS5.items()]
    for name, (prop, change, needs, note), rnd in both:
        d = os.path.join('/verif/seeded', name)
        if name not in res:
            continue
        r = res.get(name, {})
        caught = {k: f"VIOLATION property={k.split()[0]} tier={k.split()[1]} {v[3]}" for k, v in r.items() if v[0] == 'VIOLATION'}
        missed = {k: f"{v[0]} {v[3]}" for k, v in r.items() if v[0] != 'VIOLATION'}
        ok = all(v[1] > 0 and v[2] == 2 for v in r.values()) if r else False
        meta = {
            "property": prop, "round": rnd,
            "source": "independent sub-agent given only the property text, a scratch worktree and the one-line descriptions of the earlier changes for the same property",
            "change": change, "needs": needs,
            "confirmed": ("tools/try_seed.sh seeded/%s quick <check>: compiles, the 109 existing tests pass with it, the demonstration test fails with it and passes without" % name) if ok else "NOT CONFIRMED",
            "caught_by": caught,
        }
        if missed:
            meta["not_caught_by"] = missed
        if note:
            meta["note"] = note
        json.dump(meta, open(os.path.join(d, 'meta.json'), 'w'), indent=1)
        print(name, "caught" if caught else "MISSED", sorted(caught))

main()
