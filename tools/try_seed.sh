#!/bin/sh
# tools/try_seed.sh <dir with patch.diff and demo test> <tier> <check id>...
# Confirms a seeded change in a scratch worktree (compiles, existing tests pass,
# demonstration fails with it and passes without) and runs the named checks on it.
set -u
SEED=$(cd "$1" && pwd); TIER=$2; shift 2
export GOFLAGS=-mod=mod GOPROXY=off GOSUMDB=off GOTOOLCHAIN=local
W=/tmp/sv/$(basename "$SEED").$$
mkdir -p /tmp/sv
git -C /repo worktree add -q --detach "$W" HEAD || exit 2
trap 'git -C /repo worktree remove --force "$W" >/dev/null 2>&1' EXIT
DEMO=$(ls "$SEED"/*_test.go | head -1)
PKGDIR=$(cat "$SEED/demo_pkg")
echo "--- demo without the change (must pass)"
cp "$DEMO" "$W/$PKGDIR/"
case "$PKGDIR" in client/*) TD="$W/client"; TP="./${PKGDIR#client/}";; *) TD="$W"; TP="./$PKGDIR";; esac
(cd "$TD" && go test -vet=off -count=1 -run 'Seed' "$TP" 2>&1 | tail -3)
echo "--- apply"
git -C "$W" apply "$SEED/patch.diff" || exit 2
echo "--- existing tests with the change (must pass)"
rm -f "$W/$PKGDIR/$(basename "$DEMO")"
(cd "$W" && go build ./... && go test -vet=off -count=1 ./pkg/... 2>&1 | grep -v "no test files" | tail -2)
(cd "$W/client" && go build ./... && go test -vet=off -count=1 ./... 2>&1 | grep -v "no test files" | tail -2)
echo "--- demo with the change (must fail)"
cp "$DEMO" "$W/$PKGDIR/"
(cd "$TD" && go test -vet=off -count=1 -run 'Seed' "$TP" 2>&1 | tail -3)
rm -f "$W/$PKGDIR/$(basename "$DEMO")"
for id in "$@"; do
  echo "--- check $id $TIER on the seeded tree"
  VERIF_REPO="$W" VERIF_DIR=/tmp/sv/vd.$$ sh -c 'mkdir -p $VERIF_DIR && ln -sfn ${VERIF_HARNESS:-/verif/harness} $VERIF_DIR/harness && cp /verif/known_findings.json $VERIF_DIR/ && ${SYMGO_BIN:-/verif/bin/symgo} check -workers ${SYMGO_WORKERS:-16} '"$id $TIER"' 2>&1 | grep -v "^INCONCLUSIVE: .*native differential" | cut -c1-400 | tail -8'
done
rm -rf /tmp/sv/vd.$$
