//go:build verif

// Package sym is the harness API of the symgo engine. Under symbolic
// execution every function of this package is intercepted by the engine (the
// bodies below never run). Compiled natively, the bodies implement *replay*:
// nondeterministic values are read from the replay file named by
// $VERIF_REPLAY (one JSON object per case), assertions are evaluated
// concretely and recorded.
package sym

import (
	"encoding/json"
	"fmt"
	"os"
	"runtime"
	"strings"
	"time"
)

// Case is one replay case: an assignment of the symbolic variables.
type Case struct {
	Harness string            `json:"harness"`
	Args    []int             `json:"args"`
	Model   map[string]uint64 `json:"model"`
}

// Result is what a native run of a case produced.
type Result struct {
	Notes        []string `json:"notes"`
	FailedLabels []string `json:"failed"`
	Reached      []string `json:"asserts_reached"`
	Covers       []string `json:"covers"`
	Panic        string   `json:"panic,omitempty"`
	AssumeFailed bool     `json:"assume_failed,omitempty"`
}

type assumeFailed struct{}

var (
	cur    *Case
	seq    map[string]int
	res    *Result
	frozen []frozenRec
)

type frozenRec struct {
	obj  interface{}
	snap string
}

// Begin starts the native replay of one case.
func Begin(c *Case) {
	cur = c
	seq = map[string]int{}
	res = &Result{}
	frozen = nil
	baseGoroutines = runtime.NumGoroutine()
}

// End finishes the replay and returns what was observed.
func End() *Result {
	for _, f := range frozen {
		if now := snapshot(f.obj); now != f.snap {
			res.FailedLabels = append(res.FailedLabels, "frozen object modified")
			res.Reached = append(res.Reached, "frozen object modified")
		}
	}
	r := res
	cur, res = nil, nil
	return r
}

// Run executes f as one case, converting panics into the result.
func Run(c *Case, f func()) (out *Result) {
	Begin(c)
	defer func() {
		if r := recover(); r != nil {
			if _, ok := r.(assumeFailed); ok {
				res.AssumeFailed = true
			} else {
				res.Panic = fmt.Sprint(r)
			}
		}
		out = End()
	}()
	f()
	return
}

func sanitize(n string) string {
	var b strings.Builder
	for _, r := range n {
		switch {
		case r >= 'a' && r <= 'z', r >= 'A' && r <= 'Z', r >= '0' && r <= '9', r == '_', r == '.':
			b.WriteRune(r)
		default:
			b.WriteByte('_')
		}
	}
	if b.Len() == 0 {
		return "v"
	}
	return b.String()
}

func next(name string) uint64 {
	if cur == nil {
		panic("sym: nondeterministic value requested outside a replay")
	}
	name = sanitize(name)
	seq[name]++
	return cur.Model[fmt.Sprintf("%s!%d", name, seq[name])]
}

// Int32 returns an arbitrary int32.
func Int32(name string) int32 { return int32(uint32(next(name))) }

// Int64 returns an arbitrary int64.
func Int64(name string) int64 { return int64(next(name)) }

// Int returns an arbitrary int.
func Int(name string) int { return int(int64(next(name))) }

// Bool returns an arbitrary bool.
func Bool(name string) bool { return next(name) != 0 }

// IntIn returns an arbitrary int in [lo,hi] (symbolic, not forked).
func IntIn(name string, lo, hi int) int {
	v := Int(name)
	Assume(v >= lo && v <= hi)
	return v
}

// Pick returns an arbitrary int in [0,n) as a concrete value (the engine forks n ways).
func Pick(name string, n int) int {
	v := int(int64(next(name)))
	Assume(v >= 0 && v < n)
	return v
}

// Str returns one of the options (a lazily forked finite-domain string).
func Str(name string, options ...string) string {
	v := next(name)
	if v >= uint64(len(options)) {
		panic(assumeFailed{})
	}
	return options[v]
}

// Assume restricts the inputs; it must precede the code it constrains.
func Assume(c bool) {
	if !c {
		panic(assumeFailed{})
	}
}

// Assert states a property; label identifies the assertion.
func Assert(c bool, property, label string) {
	if t := os.Getenv("VERIF_TWIN"); t != "" && t == label {
		c = false // reachability twin (self-test)
	}
	res.Reached = append(res.Reached, label)
	if !c {
		res.FailedLabels = append(res.FailedLabels, label)
	}
}

// Cover marks a situation the harness wants to be sure is reachable.
func Cover(label string) { res.Covers = append(res.Covers, label) }

// Disc sets the discriminator that identifies the kind of input for violations found from here on.
func Disc(s string) {}

// Note appends a line to the observable trace of the run.
func Note(key string, vals ...interface{}) {
	var b strings.Builder
	b.WriteString(key)
	for _, v := range vals {
		b.WriteByte(' ')
		fmt.Fprint(&b, v)
	}
	res.Notes = append(res.Notes, b.String())
}

// And, Or, Not, Implies build conditions without branching.
func And(cs ...bool) bool {
	for _, c := range cs {
		if !c {
			return false
		}
	}
	return true
}
func Or(cs ...bool) bool {
	for _, c := range cs {
		if c {
			return true
		}
	}
	return false
}
func Not(c bool) bool        { return !c }
func Implies(a, b bool) bool { return !a || b }

// Ite32, Ite64, IteInt, IteStr select without branching.
func Ite32(c bool, a, b int32) int32 {
	if c {
		return a
	}
	return b
}
func Ite64(c bool, a, b int64) int64 {
	if c {
		return a
	}
	return b
}
func IteInt(c bool, a, b int) int {
	if c {
		return a
	}
	return b
}
func IteStr(c bool, a, b string) string {
	if c {
		return a
	}
	return b
}

// B2I converts a condition to 0/1 without branching.
func B2I(c bool) int {
	if c {
		return 1
	}
	return 0
}

// Concrete forces a value to be concrete (the engine forks per feasible value).
func Concrete(v int) int          { return v }
func ConcreteBool(b bool) bool    { return b }
func ConcreteStr(s string) string { return s }

// IsSymbolic reports whether the engine is executing (false natively).
func IsSymbolic() bool { return false }

// SlotsJSON encodes a delete-slots list (symbolic elements allowed).
func SlotsJSON(slots []int32) string {
	b, _ := json.Marshal(slots)
	return string(b)
}

// Freeze declares that everything reachable from x must not be modified from now on.
func Freeze(x interface{}) {
	frozen = append(frozen, frozenRec{x, snapshot(x)})
}

func snapshot(x interface{}) string {
	b, err := json.Marshal(x)
	if err != nil {
		return fmt.Sprintf("%+v", x)
	}
	return string(b)
}

// Quiesce lets every other goroutine run until all of them are blocked or have
// finished (natively: a short sleep).
func Quiesce() {
	// until the number of goroutines has not changed for 40 ms (at most 2 s on a loaded machine)
	last, stable := runtime.NumGoroutine(), 0
	for i := 0; i < 1000 && stable < 20; i++ {
		runtime.Gosched()
		time.Sleep(2 * time.Millisecond)
		if n := runtime.NumGoroutine(); n == last {
			stable++
		} else {
			last, stable = n, 0
		}
	}
}

// Alive returns the number of goroutines started since Begin that have not finished.
func Alive() int {
	n := runtime.NumGoroutine() - baseGoroutines
	if n < 0 {
		n = 0
	}
	return n
}

var baseGoroutines int
