//go:build verif

package v1

// vHarnesses maps harness names to entry points (used by the native replay).
var vHarnesses = map[string]func([]int){}
