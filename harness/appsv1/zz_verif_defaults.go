//go:build verif

package v1

// C19 (c): client-side defaulting is idempotent.

import (
	"reflect"

	corev1 "k8s.io/api/core/v1"
	metav1 "k8s.io/apimachinery/pkg/apis/meta/v1"
	"k8s.io/apimachinery/pkg/util/intstr"

	"github.com/pingcap/advanced-statefulset/client/zz_verif/sym"
)

func init() {
	vHarnesses["VH_Defaults"] = VH_Defaults
}

func vEnum(name string, opts ...string) string { return opts[sym.Pick(name, len(opts))] }

func vProbe(tag string) *corev1.Probe {
	if sym.Pick(tag, 2) == 0 {
		return nil
	}
	p := &corev1.Probe{TimeoutSeconds: sym.Int32(tag + ".timeout"), PeriodSeconds: sym.Int32(tag + ".period"),
		SuccessThreshold: sym.Int32(tag + ".success"), FailureThreshold: sym.Int32(tag + ".failure")}
	switch sym.Pick(tag+".action", 3) {
	case 1:
		p.HTTPGet = &corev1.HTTPGetAction{Path: vEnum(tag+".path", "", "/healthz"), Scheme: corev1.URIScheme(vEnum(tag+".scheme", "", "HTTPS")), Port: intstr.FromInt(8080)}
	case 2:
		p.GRPC = &corev1.GRPCAction{Port: 9090}
	}
	return p
}

func vContainer(tag string, full bool) corev1.Container {
	c := corev1.Container{Name: tag, Image: vEnum(tag+".image", "nginx", "nginx:latest", "registry.example.com:5000/team/app:v1")}
	c.ImagePullPolicy = corev1.PullPolicy(vEnum(tag+".pull", "", "Never", "Foo"))
	c.TerminationMessagePath = vEnum(tag+".termpath", "", "/tmp/msg")
	c.TerminationMessagePolicy = corev1.TerminationMessagePolicy(vEnum(tag+".termpolicy", "", "FallbackToLogsOnError"))
	if sym.Pick(tag+".port", 2) == 1 {
		c.Ports = []corev1.ContainerPort{{ContainerPort: sym.Int32(tag + ".containerPort"), HostPort: sym.Int32(tag + ".hostPort"), Protocol: corev1.Protocol(vEnum(tag+".proto", "", "UDP"))}}
	}
	if full {
		if sym.Pick(tag+".env", 2) == 1 {
			c.Env = []corev1.EnvVar{{Name: "POD", ValueFrom: &corev1.EnvVarSource{FieldRef: &corev1.ObjectFieldSelector{APIVersion: vEnum(tag+".fieldapi", "", "v1"), FieldPath: "metadata.name"}}}}
		}
		c.LivenessProbe = vProbe(tag + ".liveness")
		c.ReadinessProbe = vProbe(tag + ".readiness")
		if sym.Pick(tag+".lifecycle", 2) == 1 {
			c.Lifecycle = &corev1.Lifecycle{PostStart: &corev1.LifecycleHandler{HTTPGet: &corev1.HTTPGetAction{Port: intstr.FromInt(80)}}}
		}
	}
	return c
}

func vVolume() []corev1.Volume {
	v := corev1.Volume{Name: "vol"}
	switch sym.Pick("volume", 11) {
	case 0:
		return nil
	case 1: // no source at all: defaults to EmptyDir
	case 2:
		v.HostPath = &corev1.HostPathVolumeSource{Path: "/x"}
	case 3:
		v.Secret = &corev1.SecretVolumeSource{SecretName: "s"}
		if sym.Pick("volume.mode", 2) == 1 {
			m := sym.Int32("volume.modeval")
			v.Secret.DefaultMode = &m
		}
	case 4:
		v.ISCSI = &corev1.ISCSIVolumeSource{TargetPortal: "p", IQN: "q", ISCSIInterface: vEnum("iscsi.if", "", "eth0")}
	case 5:
		v.RBD = &corev1.RBDVolumeSource{RBDImage: "i", RBDPool: vEnum("rbd.pool", "", "p"), RadosUser: vEnum("rbd.user", "", "u"), Keyring: vEnum("rbd.keyring", "", "k")}
	case 6:
		v.DownwardAPI = &corev1.DownwardAPIVolumeSource{Items: []corev1.DownwardAPIVolumeFile{{Path: "p", FieldRef: &corev1.ObjectFieldSelector{FieldPath: "metadata.name", APIVersion: vEnum("dapi.api", "", "v1")}}}}
	case 7:
		v.ConfigMap = &corev1.ConfigMapVolumeSource{}
	case 8:
		v.AzureDisk = &corev1.AzureDiskVolumeSource{DiskName: "d", DataDiskURI: "u"}
	case 9:
		v.Projected = &corev1.ProjectedVolumeSource{Sources: []corev1.VolumeProjection{
			{ServiceAccountToken: &corev1.ServiceAccountTokenProjection{Path: "t"}},
			{DownwardAPI: &corev1.DownwardAPIProjection{Items: []corev1.DownwardAPIVolumeFile{{Path: "p", FieldRef: &corev1.ObjectFieldSelector{FieldPath: "metadata.name"}}}}}}}
	case 10:
		v.ScaleIO = &corev1.ScaleIOVolumeSource{Gateway: "g", System: "s", StorageMode: vEnum("sio.mode", "", "Thick"), FSType: vEnum("sio.fs", "", "ext4")}
	}
	return []corev1.Volume{v}
}

// VH_Defaults: a = [area]. The defaulters act field by field, so the object
// is varied one area at a time (the other areas keep one representative,
// undefaulted value): 0 set-level fields, 1 pod-level fields, 2 volumes,
// 3 container basics with hostNetwork, 4 container probes/env/lifecycle.
func VH_Defaults(a []int) {
	area := a[0]
	set := &StatefulSet{ObjectMeta: metav1.ObjectMeta{Name: "web"}}
	ps := &set.Spec.Template.Spec
	if area == 0 {
		set.Spec.PodManagementPolicy = PodManagementPolicyType(vEnum("policy", "", string(ParallelPodManagement), "Foo"))
		set.Spec.UpdateStrategy.Type = StatefulSetUpdateStrategyType(vEnum("strategy", "", string(RollingUpdateStatefulSetStrategyType), string(OnDeleteStatefulSetStrategyType), "Foo"))
		switch sym.Pick("rublock", 3) {
		case 1:
			set.Spec.UpdateStrategy.RollingUpdate = &RollingUpdateStatefulSetStrategy{}
		case 2:
			p := sym.Int32("partition")
			set.Spec.UpdateStrategy.RollingUpdate = &RollingUpdateStatefulSetStrategy{Partition: &p}
		}
		if sym.Pick("replicas", 2) == 1 {
			r := sym.Int32("replicas.val")
			set.Spec.Replicas = &r
		}
		if sym.Pick("history", 2) == 1 {
			h := sym.Int32("history.val")
			set.Spec.RevisionHistoryLimit = &h
		}
	}
	if area == 1 {
		ps.DNSPolicy = corev1.DNSPolicy(vEnum("dns", "", "Default"))
		ps.RestartPolicy = corev1.RestartPolicy(vEnum("restart", "", "Never"))
		ps.SchedulerName = vEnum("scheduler", "", "mine")
		if sym.Pick("securityContext", 2) == 1 {
			ps.SecurityContext = &corev1.PodSecurityContext{}
		}
		if sym.Pick("grace", 2) == 1 {
			g := sym.Int64("grace.val")
			ps.TerminationGracePeriodSeconds = &g
		}
	}
	if area == 2 {
		ps.Volumes = vVolume()
	}
	switch area {
	case 3:
		ps.HostNetwork = sym.Pick("hostNetwork", 2) == 1
		ps.Containers = []corev1.Container{vContainer("c", false)}
		if sym.Pick("init", 2) == 1 {
			ps.InitContainers = []corev1.Container{vContainer("i", false)}
		}
	case 4:
		c := corev1.Container{Name: "c", Image: "nginx"}
		if sym.Pick("c.env", 2) == 1 {
			c.Env = []corev1.EnvVar{{Name: "POD", ValueFrom: &corev1.EnvVarSource{FieldRef: &corev1.ObjectFieldSelector{APIVersion: vEnum("c.fieldapi", "", "v1"), FieldPath: "metadata.name"}}}}
		}
		c.LivenessProbe = vProbe("c.liveness")
		if sym.Pick("c.readiness", 2) == 1 {
			c.ReadinessProbe = &corev1.Probe{PeriodSeconds: sym.Int32("c.readiness.period")}
		}
		if sym.Pick("c.lifecycle", 2) == 1 {
			c.Lifecycle = &corev1.Lifecycle{PostStart: &corev1.LifecycleHandler{HTTPGet: &corev1.HTTPGetAction{Port: intstr.FromInt(80)}}}
		}
		ps.Containers = []corev1.Container{c}
	default:
		ps.Containers = []corev1.Container{{Name: "c", Image: "nginx"}}
	}

	before := set.DeepCopy()
	SetObjectDefaults_StatefulSet(set)
	vExplicitKept(before, set)
	once := set.DeepCopy()
	SetObjectDefaults_StatefulSet(set)
	sym.Assert(reflect.DeepEqual(once, set), "C19", "defaulting twice equals defaulting once")
	// and the defaults the reconciler relies on are in place
	sym.Assert(set.Spec.Replicas != nil && set.Spec.RevisionHistoryLimit != nil, "C19", "replicas and history limit are defaulted")
	if set.Spec.UpdateStrategy.Type == RollingUpdateStatefulSetStrategyType && set.Spec.UpdateStrategy.RollingUpdate != nil {
		sym.Assert(set.Spec.UpdateStrategy.RollingUpdate.Partition != nil, "C19", "a rolling-update block always carries a partition after defaulting")
	}
	sym.Note("policy", string(set.Spec.PodManagementPolicy), "strategy", string(set.Spec.UpdateStrategy.Type), "volumes", len(ps.Volumes))
	sym.Cover("defaulted")
}

// vExplicitKept: in the pod template defaulting only fills what is unset - a value written explicitly
// (including an explicit zero behind a pointer) is the same after defaulting, so an object that was
// read back and is re-submitted through the hijack client keeps its pod template. (Set-level fields
// are deliberately not included: like upstream, SetDefaults_StatefulSet replaces the rollingUpdate
// block when the strategy type is omitted; the statement speaks about the pod template.)
func vExplicitKept(before, after *StatefulSet) {
	keptI64 := func(b, a *int64) bool { return b == nil || (a != nil && *a == *b) }
	keptStr := func(b, a string) bool { return sym.Or(b == "", a == b) }
	bp, ap := &before.Spec.Template.Spec, &after.Spec.Template.Spec
	sym.Assert(keptI64(bp.TerminationGracePeriodSeconds, ap.TerminationGracePeriodSeconds), "C19", "explicit values survive defaulting: terminationGracePeriodSeconds")
	sym.Assert(keptStr(string(bp.DNSPolicy), string(ap.DNSPolicy)), "C19", "explicit values survive defaulting: dnsPolicy")
	sym.Assert(keptStr(string(bp.RestartPolicy), string(ap.RestartPolicy)), "C19", "explicit values survive defaulting: restartPolicy")
	sym.Assert(keptStr(bp.SchedulerName, ap.SchedulerName), "C19", "explicit values survive defaulting: schedulerName")
	sym.Assert(bp.HostNetwork == ap.HostNetwork, "C19", "explicit values survive defaulting: hostNetwork")
	for k := range bp.Containers {
		if k >= len(ap.Containers) {
			sym.Assert(false, "C19", "explicit values survive defaulting: containers")
			break
		}
		b, a := bp.Containers[k], ap.Containers[k]
		sym.Assert(sym.And(a.Image == b.Image, keptStr(string(b.ImagePullPolicy), string(a.ImagePullPolicy)), keptStr(b.TerminationMessagePath, a.TerminationMessagePath),
			keptStr(string(b.TerminationMessagePolicy), string(a.TerminationMessagePolicy))), "C19", "explicit values survive defaulting: container fields")
		for j := range b.Ports {
			if j < len(a.Ports) {
				sym.Assert(sym.And(a.Ports[j].ContainerPort == b.Ports[j].ContainerPort, keptStr(string(b.Ports[j].Protocol), string(a.Ports[j].Protocol))), "C19", "explicit values survive defaulting: ports")
			}
		}
	}
}
