//go:build verif

package helper

import (
	"encoding/json"
	"os"
	"testing"

	"github.com/pingcap/advanced-statefulset/client/zz_verif/sym"
)

type vReplayCase struct {
	ID      string            `json:"id"`
	Harness string            `json:"harness"`
	Args    []int             `json:"args"`
	Model   map[string]uint64 `json:"model"`
}

// TestVerifReplay runs the cases of $VERIF_REPLAY natively against the real
// build and writes what happened to $VERIF_REPLAY_OUT.
func TestVerifReplay(t *testing.T) {
	in := os.Getenv("VERIF_REPLAY")
	if in == "" {
		t.Skip("no replay file")
	}
	b, err := os.ReadFile(in)
	if err != nil {
		t.Fatal(err)
	}
	var cases []vReplayCase
	if err := json.Unmarshal(b, &cases); err != nil {
		t.Fatal(err)
	}
	out := map[string]*sym.Result{}
	for _, c := range cases {
		h := vHarnesses[c.Harness]
		if h == nil {
			t.Fatalf("unknown harness %s", c.Harness)
		}
		c := c
		out[c.ID] = sym.Run(&sym.Case{Harness: c.Harness, Args: c.Args, Model: c.Model}, func() { h(c.Args) })
	}
	ob, _ := json.Marshal(out)
	if err := os.WriteFile(os.Getenv("VERIF_REPLAY_OUT"), ob, 0o644); err != nil {
		t.Fatal(err)
	}
}
