//go:build verif

package helper

// C19 (a): objects converted between the built-in and the Advanced API, one at a time and as
// lists, lose nothing the Advanced API models. The conversions are the real ones; in symbolic
// mode encoding/json is the engine's structural model for API objects (fields matched by JSON
// name, omitempty, embedded structs, custom codecs copied), in the native replay it is the
// real package, so every sampled path also checks the model against encoding/json.

import (
	"fmt"

	appsv1 "k8s.io/api/apps/v1"
	v1 "k8s.io/api/core/v1"
	apiequality "k8s.io/apimachinery/pkg/api/equality"
	metav1 "k8s.io/apimachinery/pkg/apis/meta/v1"
	"k8s.io/apimachinery/pkg/util/intstr"

	asv1 "github.com/pingcap/advanced-statefulset/client/apis/apps/v1"
	"github.com/pingcap/advanced-statefulset/client/zz_verif/sym"
)

func init() {
	vHarnesses["VH_RoundTrip"] = VH_RoundTrip
	vHarnesses["VH_ListRoundTrip"] = VH_ListRoundTrip
}

func vStrMap(tag string) map[string]string {
	switch sym.Pick(tag, 4) {
	case 1:
		return map[string]string{}
	case 2:
		return map[string]string{"app": "web"}
	case 3:
		return map[string]string{"app": sym.Str(tag+".value", "web", "db", ""), "tier": "x"}
	}
	return nil
}

// vRichBuiltin builds a built-in StatefulSet; `area` selects which part of the schema varies
// in shape (nil / empty / populated collections, optional blocks), all scalar leaves of that
// part are symbolic.
func vRichBuiltin(area int, tag string) *appsv1.StatefulSet {
	r := int32(3)
	part := int32(1)
	hist := int32(10)
	sts := &appsv1.StatefulSet{
		TypeMeta:   metav1.TypeMeta{Kind: "StatefulSet", APIVersion: "apps/v1"},
		ObjectMeta: metav1.ObjectMeta{Name: "web" + tag, Namespace: "default", UID: "uid-builtin", ResourceVersion: "42", Generation: 4, Labels: map[string]string{"app": "web"}},
		Spec: appsv1.StatefulSetSpec{
			Replicas:    &r,
			ServiceName: "svc",
			Selector:    &metav1.LabelSelector{MatchLabels: map[string]string{"app": "web"}},
			Template: v1.PodTemplateSpec{ObjectMeta: metav1.ObjectMeta{Labels: map[string]string{"app": "web"}},
				Spec: v1.PodSpec{Containers: []v1.Container{{Name: "c", Image: "nginx"}}}},
			PodManagementPolicy:  appsv1.OrderedReadyPodManagement,
			UpdateStrategy:       appsv1.StatefulSetUpdateStrategy{Type: appsv1.RollingUpdateStatefulSetStrategyType, RollingUpdate: &appsv1.RollingUpdateStatefulSetStrategy{Partition: &part}},
			RevisionHistoryLimit: &hist,
		},
		Status: appsv1.StatefulSetStatus{ObservedGeneration: 4, Replicas: 3, ReadyReplicas: 2, CurrentReplicas: 1, UpdatedReplicas: 2, CurrentRevision: "web-r0", UpdateRevision: "web-r1"},
	}
	switch area {
	case 0: // metadata
		sts.Labels = vStrMap("labels")
		sts.Annotations = vStrMap("annotations")
		sts.Generation = sym.Int64("generation")
		sts.ResourceVersion = sym.Str("resourceVersion", "", "7", "42")
		sts.GenerateName = sym.Str("generateName", "", "web-")
		switch sym.Pick("finalizers", 3) {
		case 1:
			sts.Finalizers = []string{}
		case 2:
			sts.Finalizers = []string{"example.com/hold", sym.Str("finalizer", "a", "b")}
		}
		switch sym.Pick("owners", 3) {
		case 1:
			sts.OwnerReferences = []metav1.OwnerReference{}
		case 2:
			t := sym.Bool("owner.controller")
			sts.OwnerReferences = []metav1.OwnerReference{{APIVersion: "example.com/v1", Kind: "App", Name: "parent", UID: "uid-parent", Controller: &t}}
			if sym.Pick("owner.block", 2) == 1 {
				b := sym.Bool("owner.blockOwnerDeletion")
				sts.OwnerReferences[0].BlockOwnerDeletion = &b
			}
		}
		if sym.Pick("managedFields", 2) == 1 {
			// what every object read from a real API server carries
			sts.ManagedFields = []metav1.ManagedFieldsEntry{{Manager: sym.Str("manager", "kubectl", "controller"), Operation: metav1.ManagedFieldsOperationUpdate,
				APIVersion: "apps/v1", FieldsType: "FieldsV1", FieldsV1: &metav1.FieldsV1{Raw: []byte(`{"f:spec":{}}`)}}}
		}
		switch sym.Pick("deletion", 3) {
		case 1:
			ts := metav1.Unix(1700000000, 0)
			sts.DeletionTimestamp = &ts
		case 2:
			ts := metav1.Unix(1700000000, 0)
			g := sym.Int64("grace")
			sts.DeletionTimestamp = &ts
			sts.DeletionGracePeriodSeconds = &g
		}
	case 1: // spec
		switch sym.Pick("replicas", 2) {
		case 0:
			sts.Spec.Replicas = nil
		case 1:
			x := sym.Int32("replicas.value")
			sts.Spec.Replicas = &x
		}
		switch sym.Pick("selector", 4) {
		case 0:
			sts.Spec.Selector = nil
		case 1:
			sts.Spec.Selector = &metav1.LabelSelector{}
		case 2:
			sts.Spec.Selector = &metav1.LabelSelector{MatchLabels: map[string]string{"app": sym.Str("selector.value", "web", "db")}}
		case 3:
			sts.Spec.Selector = &metav1.LabelSelector{MatchExpressions: []metav1.LabelSelectorRequirement{{Key: "app", Operator: metav1.LabelSelectorOperator(sym.Str("selector.op", "In", "NotIn", "Exists")), Values: []string{"web"}}}}
		}
		sts.Spec.ServiceName = sym.Str("serviceName", "", "svc")
		sts.Spec.PodManagementPolicy = appsv1.PodManagementPolicyType(sym.Str("policy", "", "OrderedReady", "Parallel", "Foo"))
		sts.Spec.UpdateStrategy.Type = appsv1.StatefulSetUpdateStrategyType(sym.Str("strategy", "", "RollingUpdate", "OnDelete", "Foo"))
		switch sym.Pick("rolling", 4) {
		case 0:
			sts.Spec.UpdateStrategy.RollingUpdate = nil
		case 1:
			sts.Spec.UpdateStrategy.RollingUpdate = &appsv1.RollingUpdateStatefulSetStrategy{}
		case 2:
			p := sym.Int32("partition")
			sts.Spec.UpdateStrategy.RollingUpdate = &appsv1.RollingUpdateStatefulSetStrategy{Partition: &p}
		case 3: // a field the Advanced API does not model rides along
			p := sym.Int32("partition")
			mu := intstr.FromInt(1)
			sts.Spec.UpdateStrategy.RollingUpdate = &appsv1.RollingUpdateStatefulSetStrategy{Partition: &p, MaxUnavailable: &mu}
		}
		switch sym.Pick("historyLimit", 2) {
		case 0:
			sts.Spec.RevisionHistoryLimit = nil
		case 1:
			h := sym.Int32("historyLimit.value")
			sts.Spec.RevisionHistoryLimit = &h
		}
		switch sym.Pick("claims", 3) {
		case 1:
			sts.Spec.VolumeClaimTemplates = []v1.PersistentVolumeClaim{}
		case 2:
			sc := sym.Str("storageClass", "", "fast")
			sts.Spec.VolumeClaimTemplates = []v1.PersistentVolumeClaim{{ObjectMeta: metav1.ObjectMeta{Name: "data", Labels: vStrMap("claim.labels")},
				Spec: v1.PersistentVolumeClaimSpec{AccessModes: []v1.PersistentVolumeAccessMode{v1.ReadWriteOnce}, StorageClassName: &sc}}}
		}
	case 2: // pod template
		sts.Spec.Template.Labels = vStrMap("template.labels")
		sts.Spec.Template.Annotations = vStrMap("template.annotations")
		c := &sts.Spec.Template.Spec.Containers[0]
		c.Image = sym.Str("image", "", "nginx", "nginx:1.25")
		c.ImagePullPolicy = v1.PullPolicy(sym.Str("pull", "", "Always", "IfNotPresent"))
		switch sym.Pick("ports", 3) {
		case 1:
			c.Ports = []v1.ContainerPort{}
		case 2:
			c.Ports = []v1.ContainerPort{{Name: "http", ContainerPort: sym.Int32("port"), Protocol: v1.Protocol(sym.Str("protocol", "", "TCP", "UDP"))}}
		}
		switch sym.Pick("env", 3) {
		case 1:
			c.Env = []v1.EnvVar{{Name: "A", Value: sym.Str("env.value", "", "1")}}
		case 2:
			c.Env = []v1.EnvVar{{Name: "A", ValueFrom: &v1.EnvVarSource{FieldRef: &v1.ObjectFieldSelector{FieldPath: "metadata.name"}}}}
		}
		switch sym.Pick("grace", 2) {
		case 1:
			g := sym.Int64("terminationGracePeriodSeconds")
			sts.Spec.Template.Spec.TerminationGracePeriodSeconds = &g
		}
		sts.Spec.Template.Spec.HostNetwork = sym.Bool("hostNetwork")
		sts.Spec.Template.Spec.RestartPolicy = v1.RestartPolicy(sym.Str("restartPolicy", "", "Always"))
		switch sym.Pick("init", 2) {
		case 1:
			sts.Spec.Template.Spec.InitContainers = []v1.Container{{Name: "i", Image: sym.Str("init.image", "busybox", "")}}
		}
		switch sym.Pick("securityContext", 3) {
		case 1:
			sts.Spec.Template.Spec.SecurityContext = &v1.PodSecurityContext{}
		case 2:
			u := sym.Int64("runAsUser")
			sts.Spec.Template.Spec.SecurityContext = &v1.PodSecurityContext{RunAsUser: &u}
		}
	case 3: // status
		sts.Status.ObservedGeneration = sym.Int64("observedGeneration")
		sts.Status.Replicas = sym.Int32("st.replicas")
		sts.Status.ReadyReplicas = sym.Int32("st.ready")
		sts.Status.CurrentReplicas = sym.Int32("st.current")
		sts.Status.UpdatedReplicas = sym.Int32("st.updated")
		sts.Status.CurrentRevision = sym.Str("st.currentRevision", "", "web-r0")
		sts.Status.UpdateRevision = sym.Str("st.updateRevision", "", "web-r1")
		switch sym.Pick("collisionCount", 2) {
		case 1:
			cc := sym.Int32("collisionCount.value")
			sts.Status.CollisionCount = &cc
		}
		switch sym.Pick("conditions", 3) {
		case 1:
			sts.Status.Conditions = []appsv1.StatefulSetCondition{}
		case 2:
			sts.Status.Conditions = []appsv1.StatefulSetCondition{{Type: "Foo", Status: v1.ConditionStatus(sym.Str("cond.status", "True", "False", "Unknown")),
				LastTransitionTime: metav1.Unix(1700000000, 0), Reason: sym.Str("cond.reason", "", "Because"), Message: "m"}}
		}
		// a field the Advanced API does not model rides along
		sts.Status.AvailableReplicas = sym.Int32("st.available")
	}
	return sts
}

// vModelled clears what the Advanced StatefulSet API does not model.
func vModelled(sts *appsv1.StatefulSet) *appsv1.StatefulSet {
	c := sts.DeepCopy()
	if c.Spec.UpdateStrategy.RollingUpdate != nil {
		c.Spec.UpdateStrategy.RollingUpdate.MaxUnavailable = nil
	}
	c.Spec.MinReadySeconds = 0
	c.Spec.PersistentVolumeClaimRetentionPolicy = nil
	c.Spec.Ordinals = nil
	c.Status.AvailableReplicas = 0
	return c
}

// VH_RoundTrip: a = [area].
func VH_RoundTrip(a []int) {
	area := a[0]
	sts := vRichBuiltin(area, "")
	before := sts.DeepCopy()
	adv, err := FromBuiltinStatefulSet(sts)
	sym.Assert(err == nil && adv != nil, "C19", "conversion to the Advanced API never fails")
	if err != nil || adv == nil {
		return
	}
	sym.Assert(apiequality.Semantic.DeepEqual(before, sts), "C19", "conversion leaves its argument alone")
	sym.Assert(adv.APIVersion == asv1.SchemeGroupVersion.String() && adv.Kind == "StatefulSet", "C19", "the Advanced object is typed apps.pingcap.com/v1")
	// what the Advanced object carries, field by field (this is what the controller reads)
	sym.Assert(apiequality.Semantic.DeepEqual(adv.ObjectMeta, sts.ObjectMeta), "C19", "metadata survives the conversion")
	sym.Assert(apiequality.Semantic.DeepEqual(adv.Spec.Template, sts.Spec.Template), "C19", "the pod template survives the conversion")
	sym.Assert(apiequality.Semantic.DeepEqual(adv.Spec.Selector, sts.Spec.Selector), "C19", "the selector survives the conversion")
	sym.Assert(apiequality.Semantic.DeepEqual(adv.Spec.VolumeClaimTemplates, sts.Spec.VolumeClaimTemplates), "C19", "claim templates survive the conversion")
	sym.Assert(apiequality.Semantic.DeepEqual(adv.Spec.Replicas, sts.Spec.Replicas) && apiequality.Semantic.DeepEqual(adv.Spec.RevisionHistoryLimit, sts.Spec.RevisionHistoryLimit) &&
		adv.Spec.ServiceName == sts.Spec.ServiceName && string(adv.Spec.PodManagementPolicy) == string(sts.Spec.PodManagementPolicy) &&
		string(adv.Spec.UpdateStrategy.Type) == string(sts.Spec.UpdateStrategy.Type), "C19", "spec scalars survive the conversion")
	if sts.Spec.UpdateStrategy.RollingUpdate == nil {
		sym.Assert(adv.Spec.UpdateStrategy.RollingUpdate == nil, "C19", "an absent rollingUpdate block stays absent")
	} else {
		sym.Assert(adv.Spec.UpdateStrategy.RollingUpdate != nil && apiequality.Semantic.DeepEqual(adv.Spec.UpdateStrategy.RollingUpdate.Partition, sts.Spec.UpdateStrategy.RollingUpdate.Partition), "C19", "the partition survives the conversion")
	}
	st, at := sts.Status, adv.Status
	sym.Assert(at.ObservedGeneration == st.ObservedGeneration && at.Replicas == st.Replicas && at.ReadyReplicas == st.ReadyReplicas && at.CurrentReplicas == st.CurrentReplicas &&
		at.UpdatedReplicas == st.UpdatedReplicas && at.CurrentRevision == st.CurrentRevision && at.UpdateRevision == st.UpdateRevision &&
		apiequality.Semantic.DeepEqual(at.CollisionCount, st.CollisionCount) && len(at.Conditions) == len(st.Conditions), "C19", "status survives the conversion")
	for k := range st.Conditions {
		if k < len(at.Conditions) {
			x, y := at.Conditions[k], st.Conditions[k]
			sym.Assert(string(x.Type) == string(y.Type) && x.Status == y.Status && x.Reason == y.Reason && x.Message == y.Message && x.LastTransitionTime.Equal(&y.LastTransitionTime), "C19", "conditions survive the conversion")
		}
	}
	// and back: what a reader of the hijack client gets
	back, err := ToBuiltinStatefulSet(adv)
	sym.Assert(err == nil && back != nil, "C19", "conversion to the built-in API never fails")
	if err != nil || back == nil {
		return
	}
	sym.Assert(back.APIVersion == "apps/v1" && back.Kind == "StatefulSet", "C19", "the object read back is typed apps/v1")
	sym.Assert(apiequality.Semantic.DeepEqual(back, vModelled(sts)), "C19", "read back equals what was written in every modelled field")
	sym.Cover(fmt.Sprintf("round trip area %d", area))
	sym.Note("area", area, "ok", true)
}

// VH_ListRoundTrip: a = [N items]: lists keep their length, order and list metadata.
func VH_ListRoundTrip(a []int) {
	N := a[0]
	list := &asv1.StatefulSetList{TypeMeta: metav1.TypeMeta{Kind: "StatefulSetList", APIVersion: asv1.SchemeGroupVersion.String()}}
	list.ResourceVersion = sym.Str("list.resourceVersion", "", "100")
	list.Continue = sym.Str("list.continue", "", "token")
	if sym.Pick("list.remaining", 2) == 1 {
		n := sym.Int64("list.remainingItemCount")
		list.RemainingItemCount = &n
	}
	n := sym.Pick("items", N+1)
	switch {
	case n == 0 && sym.Pick("items.nil", 2) == 1:
		list.Items = nil
	default:
		list.Items = []asv1.StatefulSet{}
	}
	for k := 0; k < n; k++ {
		adv, err := FromBuiltinStatefulSet(vRichBuiltin(3, fmt.Sprintf("-%d", k)))
		if err != nil {
			sym.Assert(false, "C19", "conversion to the Advanced API never fails")
			return
		}
		list.Items = append(list.Items, *adv)
	}
	out, err := ToBuiltinStetefulsetList(list)
	sym.Assert(err == nil && out != nil, "C19", "list conversion never fails")
	if err != nil || out == nil {
		return
	}
	sym.Assert(out.APIVersion == "apps/v1", "C19", "the list is typed apps/v1")
	sym.Assert(len(out.Items) == len(list.Items), "C19", "lists keep their length")
	for k := range list.Items {
		if k < len(out.Items) {
			sym.Assert(out.Items[k].Name == list.Items[k].Name, "C19", "lists keep their order")
			sym.Assert(out.Items[k].APIVersion == "apps/v1", "C19", "list items are typed apps/v1")
			sym.Assert(out.Items[k].Status.Replicas == list.Items[k].Status.Replicas && out.Items[k].Status.UpdateRevision == list.Items[k].Status.UpdateRevision, "C19", "list items keep their content")
		}
	}
	sym.Assert(apiequality.Semantic.DeepEqual(out.ListMeta, list.ListMeta), "C19", "list metadata (resourceVersion, continue token, remaining count) survives")
	sym.Cover(fmt.Sprintf("list of %d", n))
	sym.Note("items", n)
}
