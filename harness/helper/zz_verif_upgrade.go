//go:build verif

package helper

// W-upg (C17): the upgrade helper over fake clients, interrupted by faults or
// crashes at arbitrary API calls and re-run until it succeeds.

import (
	"context"
	"fmt"
	apiequality "k8s.io/apimachinery/pkg/api/equality"
	"strings"

	appsv1 "k8s.io/api/apps/v1"
	v1 "k8s.io/api/core/v1"
	apierrors "k8s.io/apimachinery/pkg/api/errors"
	metav1 "k8s.io/apimachinery/pkg/apis/meta/v1"
	"k8s.io/apimachinery/pkg/labels"
	"k8s.io/apimachinery/pkg/runtime/schema"
	"k8s.io/client-go/kubernetes"
	appsv1client "k8s.io/client-go/kubernetes/typed/apps/v1"

	asv1 "github.com/pingcap/advanced-statefulset/client/apis/apps/v1"
	asclientset "github.com/pingcap/advanced-statefulset/client/client/clientset/versioned"
	asappsv1 "github.com/pingcap/advanced-statefulset/client/client/clientset/versioned/typed/apps/v1"
	"github.com/pingcap/advanced-statefulset/client/zz_verif/sym"
)

func init() {
	vHarnesses["VH_Upgrade"] = VH_Upgrade
}

type vUOp struct {
	verb   string
	name   string
	failed bool
	orphan bool
	// state of the world when a built-in delete was issued
	advAtDelete  *asv1.StatefulSet
	revsAtDelete []*appsv1.ControllerRevision
}

type vUWorld struct {
	revs    []*appsv1.ControllerRevision
	builtin []*appsv1.StatefulSet
	adv     []*asv1.StatefulSet
	ops     []vUOp
	budget  int
	crash   bool
}

type vUCrash struct{}

func (w *vUWorld) rec(op vUOp) *vUOp {
	w.ops = append(w.ops, op)
	return &w.ops[len(w.ops)-1]
}

// lostResponse reports whether the failing call was nevertheless applied by
// the server: a NotFound on delete means the object is gone, an AlreadyExists
// on create means it is there, a timeout may hide a write that went through.
func lostResponse(err error, verb string) bool {
	switch {
	case apierrors.IsTimeout(err):
		return sym.Pick("applied@"+verb, 2) == 1
	case apierrors.IsNotFound(err):
		return strings.HasSuffix(verb, ".delete")
	case apierrors.IsAlreadyExists(err):
		return strings.HasSuffix(verb, ".create")
	}
	return false
}

func (w *vUWorld) fault(verb, resource, name string) error {
	if w.budget <= 0 {
		return nil
	}
	if !sym.Bool("fault@" + verb) {
		return nil
	}
	w.budget--
	if sym.Pick("crash@"+verb, 2) == 1 {
		sym.Cover("crash injected")
		panic(vUCrash{})
	}
	sym.Cover("fault injected at " + verb)
	gr := schema.GroupResource{Resource: resource}
	switch sym.Pick("faultkind@"+verb, 5) {
	case 1:
		return apierrors.NewConflict(gr, name, fmt.Errorf("injected"))
	case 2:
		return apierrors.NewNotFound(gr, name)
	case 3:
		return apierrors.NewAlreadyExists(gr, name)
	case 4:
		return apierrors.NewTimeoutError("injected", 1)
	}
	return apierrors.NewInternalError(fmt.Errorf("injected"))
}

// ---- built-in clientset: only what the helper may touch

type vUKube struct {
	kubernetes.Interface // CoreV1 (pods, claims) is deliberately not implemented
	w                    *vUWorld
}

func (k *vUKube) AppsV1() appsv1client.AppsV1Interface { return &vUApps{w: k.w} }

type vUApps struct {
	appsv1client.AppsV1Interface
	w *vUWorld
}

func (a *vUApps) ControllerRevisions(ns string) appsv1client.ControllerRevisionInterface {
	return &vURevs{w: a.w}
}
func (a *vUApps) StatefulSets(ns string) appsv1client.StatefulSetInterface {
	return &vUBuiltin{w: a.w}
}

type vURevs struct {
	appsv1client.ControllerRevisionInterface
	w *vUWorld
}

func (r *vURevs) List(ctx context.Context, o metav1.ListOptions) (*appsv1.ControllerRevisionList, error) {
	op := r.w.rec(vUOp{verb: "rev.list"})
	if err := r.w.fault("rev.list", "controllerrevisions", ""); err != nil {
		op.failed = true
		return nil, err
	}
	sel, err := labels.Parse(o.LabelSelector)
	if err != nil {
		return nil, err
	}
	out := &appsv1.ControllerRevisionList{}
	for _, x := range r.w.revs {
		if sel.Matches(labels.Set(x.Labels)) {
			out.Items = append(out.Items, *x.DeepCopy())
		}
	}
	return out, nil
}

func (r *vURevs) Update(ctx context.Context, rev *appsv1.ControllerRevision, o metav1.UpdateOptions) (*appsv1.ControllerRevision, error) {
	op := r.w.rec(vUOp{verb: "rev.update", name: rev.Name})
	if err := r.w.fault("rev.update:"+rev.Name, "controllerrevisions", rev.Name); err != nil {
		op.failed = true
		return nil, err
	}
	for i, x := range r.w.revs {
		if x.Name == rev.Name {
			r.w.revs[i] = rev.DeepCopy()
			return rev.DeepCopy(), nil
		}
	}
	op.failed = true
	return nil, apierrors.NewNotFound(schema.GroupResource{Resource: "controllerrevisions"}, rev.Name)
}

type vUBuiltin struct {
	appsv1client.StatefulSetInterface
	w *vUWorld
}

func (b *vUBuiltin) Delete(ctx context.Context, name string, o metav1.DeleteOptions) error {
	op := b.w.rec(vUOp{verb: "builtin.delete", name: name})
	op.orphan = o.PropagationPolicy != nil && *o.PropagationPolicy == metav1.DeletePropagationOrphan
	if len(b.w.adv) == 1 {
		op.advAtDelete = b.w.adv[0].DeepCopy()
	}
	for _, r := range b.w.revs {
		op.revsAtDelete = append(op.revsAtDelete, r.DeepCopy())
	}
	if err := b.w.fault("builtin.delete", "statefulsets", name); err != nil {
		op.failed = true
		if lostResponse(err, "builtin.delete") {
			b.w.builtin = nil
		}
		return err
	}
	for i, x := range b.w.builtin {
		if x.Name == name {
			b.w.builtin = append(b.w.builtin[:i:i], b.w.builtin[i+1:]...)
			return nil
		}
	}
	op.failed = true
	return apierrors.NewNotFound(schema.GroupResource{Resource: "statefulsets"}, name)
}

// ---- advanced clientset

type vUAS struct {
	asclientset.Interface
	w *vUWorld
}

func (a *vUAS) AppsV1() asappsv1.AppsV1Interface { return &vUASApps{w: a.w} }

type vUASApps struct {
	asappsv1.AppsV1Interface
	w *vUWorld
}

func (a *vUASApps) StatefulSets(ns string) asappsv1.StatefulSetInterface { return &vUAdv{w: a.w} }

type vUAdv struct {
	asappsv1.StatefulSetInterface
	w *vUWorld
}

func (s *vUAdv) find(name string) int {
	for i, x := range s.w.adv {
		if x.Name == name {
			return i
		}
	}
	return -1
}

func (s *vUAdv) Get(ctx context.Context, name string, o metav1.GetOptions) (*asv1.StatefulSet, error) {
	op := s.w.rec(vUOp{verb: "adv.get", name: name})
	if err := s.w.fault("adv.get", "statefulsets", name); err != nil {
		op.failed = true
		return nil, err
	}
	if i := s.find(name); i >= 0 {
		return s.w.adv[i].DeepCopy(), nil
	}
	op.failed = true
	return nil, apierrors.NewNotFound(schema.GroupResource{Resource: "statefulsets"}, name)
}

func (s *vUAdv) Create(ctx context.Context, set *asv1.StatefulSet, o metav1.CreateOptions) (*asv1.StatefulSet, error) {
	op := s.w.rec(vUOp{verb: "adv.create", name: set.Name})
	if err := s.w.fault("adv.create", "statefulsets", set.Name); err != nil {
		op.failed = true
		if lostResponse(err, "adv.create") && s.find(set.Name) < 0 {
			c := set.DeepCopy()
			c.UID = "uid-advanced"
			c.ResourceVersion = "1"
			c.Status = asv1.StatefulSetStatus{}
			s.w.adv = append(s.w.adv, c)
		}
		return nil, err
	}
	if s.find(set.Name) >= 0 {
		op.failed = true
		return nil, apierrors.NewAlreadyExists(schema.GroupResource{Resource: "statefulsets"}, set.Name)
	}
	c := set.DeepCopy()
	c.UID = "uid-advanced"
	c.ResourceVersion = "1"
	c.Status = asv1.StatefulSetStatus{} // status is a subresource: ignored on create
	s.w.adv = append(s.w.adv, c)
	return c.DeepCopy(), nil
}

func (s *vUAdv) Update(ctx context.Context, set *asv1.StatefulSet, o metav1.UpdateOptions) (*asv1.StatefulSet, error) {
	op := s.w.rec(vUOp{verb: "adv.update", name: set.Name})
	if err := s.w.fault("adv.update", "statefulsets", set.Name); err != nil {
		op.failed = true
		return nil, err
	}
	i := s.find(set.Name)
	if i < 0 {
		op.failed = true
		return nil, apierrors.NewNotFound(schema.GroupResource{Resource: "statefulsets"}, set.Name)
	}
	c := set.DeepCopy()
	c.Status = s.w.adv[i].Status // status is a subresource: untouched by update
	s.w.adv[i] = c
	return c.DeepCopy(), nil
}

func (s *vUAdv) UpdateStatus(ctx context.Context, set *asv1.StatefulSet, o metav1.UpdateOptions) (*asv1.StatefulSet, error) {
	op := s.w.rec(vUOp{verb: "adv.updateStatus", name: set.Name})
	if err := s.w.fault("adv.updateStatus", "statefulsets", set.Name); err != nil {
		op.failed = true
		return nil, err
	}
	i := s.find(set.Name)
	if i < 0 {
		op.failed = true
		return nil, apierrors.NewNotFound(schema.GroupResource{Resource: "statefulsets"}, set.Name)
	}
	c := s.w.adv[i].DeepCopy()
	c.Status = *set.Status.DeepCopy()
	s.w.adv[i] = c
	return c.DeepCopy(), nil
}

// vFromBuiltinModel replaces FromBuiltinStatefulSet (a JSON round trip) during
// symbolic execution: it copies the fields the Advanced type models.
func vFromBuiltinModel(sts *appsv1.StatefulSet) (*asv1.StatefulSet, error) {
	c := sts.DeepCopy()
	out := &asv1.StatefulSet{TypeMeta: c.TypeMeta, ObjectMeta: c.ObjectMeta}
	out.TypeMeta.APIVersion = asv1.SchemeGroupVersion.String()
	out.Spec = asv1.StatefulSetSpec{
		Replicas: c.Spec.Replicas, Selector: c.Spec.Selector, Template: c.Spec.Template,
		VolumeClaimTemplates: c.Spec.VolumeClaimTemplates, ServiceName: c.Spec.ServiceName,
		PodManagementPolicy:  asv1.PodManagementPolicyType(c.Spec.PodManagementPolicy),
		RevisionHistoryLimit: c.Spec.RevisionHistoryLimit,
	}
	out.Spec.UpdateStrategy.Type = asv1.StatefulSetUpdateStrategyType(c.Spec.UpdateStrategy.Type)
	if ru := c.Spec.UpdateStrategy.RollingUpdate; ru != nil {
		out.Spec.UpdateStrategy.RollingUpdate = &asv1.RollingUpdateStatefulSetStrategy{Partition: ru.Partition}
	}
	out.Status = asv1.StatefulSetStatus{
		ObservedGeneration: c.Status.ObservedGeneration, Replicas: c.Status.Replicas, ReadyReplicas: c.Status.ReadyReplicas,
		CurrentReplicas: c.Status.CurrentReplicas, UpdatedReplicas: c.Status.UpdatedReplicas,
		CurrentRevision: c.Status.CurrentRevision, UpdateRevision: c.Status.UpdateRevision, CollisionCount: c.Status.CollisionCount,
	}
	return out, nil
}

func vBuiltinSet(shape int) *appsv1.StatefulSet {
	r := int32(3)
	part := int32(1)
	sts := &appsv1.StatefulSet{
		TypeMeta:   metav1.TypeMeta{Kind: "StatefulSet", APIVersion: "apps/v1"},
		ObjectMeta: metav1.ObjectMeta{Name: "web", Namespace: "default", UID: "uid-builtin", ResourceVersion: "42", Labels: map[string]string{"app": "web"}},
		Spec: appsv1.StatefulSetSpec{
			Replicas:    &r,
			ServiceName: "svc",
			Template: v1.PodTemplateSpec{ObjectMeta: metav1.ObjectMeta{Labels: map[string]string{"app": "web", "tier": "db"}},
				Spec: v1.PodSpec{Containers: []v1.Container{{Name: "c", Image: "nginx"}}}},
			UpdateStrategy: appsv1.StatefulSetUpdateStrategy{Type: appsv1.RollingUpdateStatefulSetStrategyType, RollingUpdate: &appsv1.RollingUpdateStatefulSetStrategy{Partition: &part}},
		},
		Status: appsv1.StatefulSetStatus{ObservedGeneration: 4, Replicas: 3, ReadyReplicas: 2, CurrentReplicas: 1, UpdatedReplicas: 2, CurrentRevision: "web-r0", UpdateRevision: "web-r1"},
	}
	switch shape {
	case 0:
		sts.Spec.Selector = &metav1.LabelSelector{MatchLabels: map[string]string{"app": "web"}}
	case 1:
		sts.Spec.Selector = &metav1.LabelSelector{MatchLabels: map[string]string{"app": "web", "tier": "db"}}
	case 2:
		sts.Spec.Selector = &metav1.LabelSelector{MatchLabels: map[string]string{"app": "web"},
			MatchExpressions: []metav1.LabelSelectorRequirement{{Key: "tier", Operator: metav1.LabelSelectorOpIn, Values: []string{"db"}}}}
	case 3:
		sts.Spec.Selector = &metav1.LabelSelector{MatchExpressions: []metav1.LabelSelectorRequirement{{Key: "app", Operator: metav1.LabelSelectorOpIn, Values: []string{"web"}}}}
	}
	return sts
}

// VH_Upgrade: a = [R revisions, E interrupted runs, selector shapes].
func VH_Upgrade(a []int) {
	R, E, shapes := a[0], a[1], a[2]
	w := &vUWorld{}
	shape := sym.Pick("selector", shapes)
	sts := vBuiltinSet(shape)
	if sym.Pick("scaledToZero", 2) == 1 {
		// a set that was scaled to zero before the upgrade: no replicas, all counters zero
		zero := int32(0)
		sts.Spec.Replicas = &zero
		sts.Status.Replicas, sts.Status.ReadyReplicas, sts.Status.CurrentReplicas, sts.Status.UpdatedReplicas = 0, 0, 0, 0
		sym.Cover("set scaled to zero")
	}
	if shape == 3 {
		sym.Disc("expression-only-selector")
	} else if shape == 2 {
		sym.Disc("labels-and-expressions-selector")
	}
	w.builtin = []*appsv1.StatefulSet{sts.DeepCopy()}
	nrev := sym.Pick("revisions", R+1)
	t := true
	for i := 0; i < nrev; i++ {
		rev := &appsv1.ControllerRevision{ObjectMeta: metav1.ObjectMeta{
			Name: fmt.Sprintf("web-r%d", i), Namespace: "default", Labels: map[string]string{"app": "web", "tier": "db", "controller.kubernetes.io/hash": "h"},
			OwnerReferences: []metav1.OwnerReference{{APIVersion: "apps/v1", Kind: "StatefulSet", Name: "web", UID: "uid-builtin", Controller: &t}}}, Revision: int64(i + 1)}
		if sym.Pick("rev.marked", 2) == 1 {
			// the set went to the Advanced API and back before: the revision matches the selector
			// and still carries the marker of the earlier upgrade
			rev.Labels[UpgradeToAdvancedStatefulSetAnn] = "web"
			sym.Cover("a revision already carries the upgrade marker")
		}
		w.revs = append(w.revs, rev)
	}
	foreign := &appsv1.ControllerRevision{ObjectMeta: metav1.ObjectMeta{Name: "other-r0", Namespace: "default", Labels: map[string]string{"app": "other"}}, Revision: 1}
	w.revs = append(w.revs, foreign)
	if sym.Pick("preexisting", 2) == 1 {
		old, _ := FromBuiltinStatefulSet(sts)
		old.UID = "uid-advanced"
		old.ResourceVersion = "7"
		zero := int32(0)
		old.Spec.Replicas = &zero
		old.Status = asv1.StatefulSetStatus{}
		if sym.Pick("preexisting.stale", 2) == 1 {
			// a left-over of an earlier incarnation: other spec fields differ as well
			old.Spec.ServiceName = "old-svc"
			old.Spec.PodManagementPolicy = asv1.ParallelPodManagement
			h := int32(3)
			old.Spec.RevisionHistoryLimit = &h
			sym.Cover("pre-existing object differs in more than replicas")
		}
		w.adv = []*asv1.StatefulSet{old}
		sym.Cover("advanced object pre-exists")
	}
	kube := &vUKube{w: w}
	as := &vUAS{w: w}

	run := func(budget int) (ok bool, crashed bool) {
		w.budget = budget
		defer func() {
			if r := recover(); r != nil {
				if _, isCrash := r.(vUCrash); isCrash {
					crashed = true
					return
				}
				panic(r)
			}
		}()
		_, err := Upgrade(context.TODO(), kube, as, sts.DeepCopy())
		return err == nil, false
	}
	done := false
	for e := 0; e < E && !done; e++ {
		ok, crashed := run(1)
		sym.Note("interrupted run", ok, crashed)
		done = ok
	}
	if !done {
		ok, _ := run(0)
		sym.Note("clean run", ok)
		sym.Assert(ok, "C17", "a run without failures succeeds")
		done = ok
	}
	for _, op := range w.ops {
		sym.Note(op.verb, op.name, "failed", op.failed)
	}

	// ---- monitors over every prefix of the combined log: replay the world
	want, _ := FromBuiltinStatefulSet(sts)
	builtinSelector, _ := metav1.LabelSelectorAsSelector(sts.Spec.Selector)
	for _, op := range w.ops {
		if op.verb != "builtin.delete" {
			continue
		}
		sym.Cover("built-in delete issued")
		sym.Assert(op.orphan, "C17", "the built-in set is deleted with orphan propagation")
	}
	deleted := len(w.builtin) == 0
	for _, op := range w.ops {
		if op.verb != "builtin.delete" {
			continue
		}
		// the state of the world at the moment the delete was issued
		got := op.advAtDelete
		sym.Assert(got != nil, "C17", "an Advanced StatefulSet exists before the built-in one is removed")
		if got != nil {
			sym.Assert(got.Name == sts.Name && got.Namespace == sts.Namespace, "C17", "same name")
			sym.Assert(apiequality.Semantic.DeepEqual(got.Spec, want.Spec), "C17", "same spec, field by field")
			sym.Assert(*got.Spec.Replicas == *want.Spec.Replicas && got.Spec.ServiceName == want.Spec.ServiceName &&
				got.Spec.Template.Spec.Containers[0].Image == "nginx" && got.Spec.UpdateStrategy.RollingUpdate != nil &&
				*got.Spec.UpdateStrategy.RollingUpdate.Partition == 1 && got.Spec.Selector != nil, "C17", "same spec")
			ws := sts.Status
			sym.Assert(got.Status.Replicas == ws.Replicas && got.Status.ReadyReplicas == ws.ReadyReplicas && got.Status.CurrentReplicas == ws.CurrentReplicas && got.Status.UpdatedReplicas == ws.UpdatedReplicas &&
				got.Status.CurrentRevision == "web-r0" && got.Status.UpdateRevision == "web-r1" && got.Status.ObservedGeneration == 4, "C17", "same status")
		}
		for _, r := range op.revsAtDelete {
			if strings.HasPrefix(r.Name, "web-") {
				sym.Assert(r.Labels[UpgradeToAdvancedStatefulSetAnn] == "web", "C17", "every revision of the set carries the upgrade marker")
				// the point of removing the selector labels: the built-in controller must
				// not be able to select (and re-adopt) the revision any more
				sym.Assert(!builtinSelector.Matches(labels.Set(r.Labels)), "C17", "selector labels are removed from every revision of the set")
				for k := range sts.Spec.Selector.MatchLabels {
					_, has := r.Labels[k]
					sym.Assert(!has, "C17", "matchLabels keys are removed from every revision of the set")
				}
				sym.Assert(len(r.OwnerReferences) == 1, "C17", "revisions keep their owner reference for the garbage collector to orphan")
			}
		}
	}
	if done {
		// final state equals that of an uninterrupted run
		sym.Assert(len(w.adv) == 1 && w.adv[0].Status.Replicas == sts.Status.Replicas && *w.adv[0].Spec.Replicas == *sts.Spec.Replicas, "C17", "final Advanced object carries spec and status of the built-in set")
		for _, r := range w.revs {
			if strings.HasPrefix(r.Name, "web-") {
				sym.Assert(r.Labels[UpgradeToAdvancedStatefulSetAnn] == "web", "C17", "final revisions carry the upgrade marker")
			}
		}
	}
	sym.Assert(deleted == done, "C17", "the built-in set is gone exactly when the helper reported success")
	sym.Assert(foreign.Labels["app"] == "other" && len(foreign.Labels) == 1, "C17", "revisions of other sets are untouched")
	for _, r := range w.revs {
		if r.Name == "other-r0" {
			sym.Assert(len(r.Labels) == 1 && r.Labels["app"] == "other", "C17", "revisions of other sets are untouched")
		}
	}
	sym.Disc("")
	if done {
		sym.Cover("upgrade completed")
	}
}
