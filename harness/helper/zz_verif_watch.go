//go:build verif

package helper

// W-watch (C20): the hijacked watch between a source watch and a consumer,
// under the engine's cooperative scheduler (natively: the Go scheduler).

import (
	"fmt"
	"math/rand"
	"sync"
	"time"

	appsv1 "k8s.io/api/apps/v1"
	metav1 "k8s.io/apimachinery/pkg/apis/meta/v1"
	utilruntime "k8s.io/apimachinery/pkg/util/runtime"
	"k8s.io/apimachinery/pkg/watch"

	asv1 "github.com/pingcap/advanced-statefulset/client/apis/apps/v1"
	"github.com/pingcap/advanced-statefulset/client/zz_verif/sym"
)

func init() {
	vHarnesses["VH_Watch"] = VH_Watch
}

// vSource is an underlying watch in the style of client-go's StreamWatcher.
type vSource struct {
	ch      chan watch.Event
	stopCh  chan struct{}
	mu      sync.Mutex
	stopped bool
	stops   int
}

func (s *vSource) Stop() {
	s.mu.Lock()
	defer s.mu.Unlock()
	s.stops++
	if !s.stopped {
		s.stopped = true
		close(s.stopCh)
	}
}

func (s *vSource) ResultChan() <-chan watch.Event { return s.ch }

// vJitter widens, in native runs only, the set of interleavings the Go
// scheduler produces (under the engine every interleaving within the
// preemption bound is explored anyway): a violation that depends on the
// schedule is confirmed natively by replaying its inputs repeatedly.
func vJitter() {
	if !sym.IsSymbolic() {
		time.Sleep(time.Duration(rand.Intn(600)) * time.Microsecond)
	}
}

func (s *vSource) run(events []watch.Event) {
	defer close(s.ch)
	for _, e := range events {
		vJitter()
		select {
		case s.ch <- e:
		case <-s.stopCh:
			return
		}
	}
}

// vToBuiltinModel replaces ToBuiltinStatefulSet (a JSON round trip) during symbolic execution.
func vToBuiltinModel(sts *asv1.StatefulSet) (*appsv1.StatefulSet, error) {
	out := &appsv1.StatefulSet{TypeMeta: sts.TypeMeta, ObjectMeta: *sts.ObjectMeta.DeepCopy()}
	out.TypeMeta.APIVersion = appsv1.SchemeGroupVersion.String()
	out.Spec.Replicas = sts.Spec.Replicas
	out.Spec.ServiceName = sts.Spec.ServiceName
	out.Status.Replicas = sts.Status.Replicas
	return out, nil
}

var vEventTypes = []watch.EventType{watch.Added, watch.Modified, watch.Deleted, watch.Bookmark, watch.Error}

// VH_Watch: a = [L events, S stops, kinds of events (5 = including Error)].
func VH_Watch(a []int) {
	L, S, kinds := a[0], a[1], a[2]
	utilruntime.ReallyCrash = false // a crash of the relay is observed as a lost event, not as a dead test binary
	defer func() { utilruntime.ReallyCrash = true }()
	n := sym.Pick("events", L+1)
	var events []watch.Event
	hasError := false
	for i := 0; i < n; i++ {
		t := vEventTypes[sym.Pick("type", kinds)]
		r := int32(i)
		var obj interface{ DeepCopyObject() interface{} }
		_ = obj
		if t == watch.Error {
			events = append(events, watch.Event{Type: t, Object: &metav1.Status{Status: "Failure", Message: fmt.Sprintf("boom-%d", i), Code: 410}})
			hasError = true
		} else {
			events = append(events, watch.Event{Type: t, Object: &asv1.StatefulSet{ObjectMeta: metav1.ObjectMeta{Name: fmt.Sprintf("set-%d", i), ResourceVersion: fmt.Sprintf("%d", i)}, Spec: asv1.StatefulSetSpec{Replicas: &r}}})
		}
	}
	if hasError {
		sym.Disc("error-event")
	}
	src := &vSource{ch: make(chan watch.Event), stopCh: make(chan struct{})}
	w := newHijackWatch(src)
	go src.run(events)

	want := sym.Pick("consume", n+1) // the consumer reads this many events, then stops
	got := 0
	for got < want {
		ev, ok := <-w.ResultChan()
		if !ok {
			break
		}
		sent := events[got]
		sym.Assert(ev.Type == sent.Type, "C20", "events arrive in order with their type")
		switch o := ev.Object.(type) {
		case *appsv1.StatefulSet:
			in, isSet := sent.Object.(*asv1.StatefulSet)
			sym.Assert(isSet && o.Name == in.Name && o.ResourceVersion == in.ResourceVersion && *o.Spec.Replicas == *in.Spec.Replicas && o.APIVersion == "apps/v1", "C20", "StatefulSet payloads arrive as the equivalent built-in object")
		case *metav1.Status:
			in, isStatus := sent.Object.(*metav1.Status)
			sym.Assert(isStatus && o.Message == in.Message, "C20", "error statuses are relayed as they are")
		default:
			sym.Assert(false, "C20", "payload is a built-in StatefulSet or a status")
		}
		got++
	}
	sym.Note("sent", n, "wanted", want, "got", got)
	sym.Assert(got == want, "C20", "every event the consumer waits for is delivered")
	// the consumer may stop at once or after the other goroutines have gone as
	// far as they can (natively: after a pause), e.g. with the relay holding an event
	settled := sym.Pick("settle", 2) == 1
	if settled {
		sym.Quiesce()
	}
	if want < n {
		if settled {
			sym.Disc("consumer-stops-early-with-an-event-pending")
		} else {
			sym.Disc("consumer-stops-early")
		}
	}
	if !settled {
		vJitter()
	}
	for k := 0; k < S; k++ {
		w.Stop()
	}
	if S == 0 && want < n {
		// neither stopped nor drained: nothing to check about shutdown
		sym.Cover("consumer walked away without Stop")
		return
	}
	sym.Quiesce()
	closed := false
	select {
	case _, ok := <-w.ResultChan():
		closed = !ok
	default:
	}
	sym.Assert(sym.Alive() == 0, "C20", "no goroutine is left behind after the consumer stopped or the source ended")
	sym.Assert(closed, "C20", "the result channel is closed after the consumer stopped or the source ended")
	sym.Assert(src.stops >= 1, "C20", "the underlying watch is stopped")
	sym.Cover("watch shut down")
}
