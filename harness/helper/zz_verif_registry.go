//go:build verif

package helper

// vHarnesses maps harness names to entry points (used by the native replay).
var vHarnesses = map[string]func([]int){}
