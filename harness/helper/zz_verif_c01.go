//go:build verif

package helper

import (
	"math"

	metav1 "k8s.io/apimachinery/pkg/apis/meta/v1"

	"github.com/pingcap/advanced-statefulset/client/zz_verif/sym"
)

func init() {
	vHarnesses["VH_C01Kernel"] = VH_C01Kernel
}

// vMalformed are delete-slots annotation values that do not decode to a list
// of int32 (or decode to an empty one); the desired set is then [0,r).
var vMalformed = []string{"", "x", "[1,", "{}", "[1.5]", "[99999999999]", "null", "[]", "[\"1\"]", "[-]", "[1, 2147483648]", "[0, \"1\", 2]"}

// vObj is the smallest metav1.Object carrying annotations.
func vObj(ann map[string]string) metav1.Object {
	return &metav1.ObjectMeta{Name: "web", Namespace: "default", Annotations: ann}
}

// vSlotSet is the harness view of the delete-slots input: k slot values
// (arbitrary int32) or none.
type vSlotSet struct {
	vals []int32
}

func (s vSlotSet) has(x int32) bool {
	c := false
	for _, v := range s.vals {
		c = sym.Or(c, v == x)
	}
	return c
}

// vDesired is the reference definition of the desired set D(r,S) on the
// universe [0,n): x is desired iff x is not a slot and fewer than r
// non-slot ordinals lie below it. It is written with non-forking builders.
func vDesired(r int32, s vSlotSet, n int) []bool {
	out := make([]bool, n)
	cnt := int32(0) // number of non-slot ordinals below x
	for x := 0; x < n; x++ {
		in := s.has(int32(x))
		out[x] = sym.And(sym.Not(in), cnt < r)
		cnt = sym.Ite32(in, cnt, cnt+1)
	}
	return out
}

// vSlotsInput builds the annotated object for the chosen input shape and
// returns the slot set it denotes.
func vSlotsInput(K int) (metav1.Object, vSlotSet) {
	switch sym.Pick("shape", 4) {
	case 0:
		sym.Disc("no-annotations")
		return vObj(nil), vSlotSet{}
	case 1:
		sym.Disc("key-absent")
		return vObj(map[string]string{"other": "x"}), vSlotSet{}
	case 2:
		sym.Disc("malformed")
		j := sym.Pick("malformed", len(vMalformed))
		return vObj(map[string]string{DeleteSlotsAnn: vMalformed[j], "other": "x"}), vSlotSet{}
	}
	k := sym.Pick("k", K+1)
	vals := make([]int32, k)
	neg := false
	for i := range vals {
		vals[i] = sym.Int32("slot")
		neg = sym.Or(neg, vals[i] < 0)
	}
	// discriminator for findings: does the list contain a negative slot?
	if sym.ConcreteBool(neg) {
		sym.Disc("negative-slot")
	} else {
		sym.Disc("non-negative-slots")
	}
	return vObj(map[string]string{DeleteSlotsAnn: sym.SlotsJSON(vals)}), vSlotSet{vals}
}

// VH_C01Kernel: every helper that answers questions about the desired set
// agrees with the reference definition. a = [R, K].
func VH_C01Kernel(a []int) {
	R, K := a[0], a[1]
	n := R + K + 1 // universe [0,n): no desired ordinal can reach n
	r := int32(sym.IntIn("r", 0, R))
	obj, S := vSlotsInput(K)
	want := vDesired(r, S, n)

	// the decoded slot set
	slots := GetDeleteSlots(obj)
	for x := 0; x < n; x++ {
		sym.Assert(slots.Has(int32(x)) == S.has(int32(x)), "C01", "decoded slots equal the annotation")
	}
	for _, v := range S.vals {
		sym.Assert(slots.Has(v), "C01", "decoded slots contain every listed value")
	}
	sym.Assert(slots.Len() <= len(S.vals), "C01", "decoded slots contain nothing else")

	// pod ordinals
	got := GetPodOrdinals(r, obj)
	for x := 0; x < n; x++ {
		sym.Assert(got.Has(int32(x)) == want[x], "C01", "pod ordinals equal the desired set")
	}
	for ord := range got {
		sym.Assert(ord >= 0, "C01", "no negative ordinal")
		sym.Assert(ord < int32(n), "C01", "no ordinal beyond replicas+slots")
		sym.Assert(sym.Not(S.has(ord)), "C01", "no ordinal is a delete slot")
	}
	sym.Assert(int32(got.Len()) == r, "C01", "exactly r ordinals")
	sym.Note("ordinals", got.List(), "r", r)

	// highest / lowest
	wantMax, wantMin := int32(-1), int32(math.MaxInt32)
	for x := 0; x < n; x++ {
		wantMax = sym.Ite32(want[x], int32(x), wantMax)
	}
	for x := n - 1; x >= 0; x-- {
		wantMin = sym.Ite32(want[x], int32(x), wantMin)
	}
	sym.Assert(GetMaxPodOrdinal(r, obj) == wantMax, "C01", "max ordinal agrees")
	sym.Assert(GetMinPodOrdinal(r, obj) == wantMin, "C01", "min ordinal agrees")

	// effective range and effective slots; the input set must not be mutated
	in := GetDeleteSlots(obj)
	before := in.Len()
	sym.Freeze(in)
	b, E := GetMaxReplicaCountAndDeleteSlots(r, in)
	sym.Assert(in.Len() == before, "C01", "input slot set not mutated")
	for x := 0; x < n; x++ {
		inE := E.Has(int32(x))
		sym.Assert(inE == sym.And(S.has(int32(x)), int32(x) < b), "C01", "effective slots are the slots inside the range")
		sym.Assert(want[x] == sym.And(int32(x) < b, sym.Not(inE)), "C01", "desired set is the range minus the effective slots")
	}
	for e := range E {
		sym.Assert(sym.And(e >= 0, e < b), "C01", "effective slots lie inside the range")
		sym.Assert(S.has(e), "C01", "effective slots are listed slots")
	}
	sym.Assert(sym.And(b >= r, b <= r+int32(len(S.vals))), "C01", "range is replicas plus the slots inside it")
	sym.Note("range", b)

	// the replicas+slots variant used by the controller
	got2 := GetPodOrdinalsFromReplicasAndDeleteSlots(r, GetDeleteSlots(obj))
	for x := 0; x < n; x++ {
		sym.Assert(got2.Has(int32(x)) == want[x], "C01", "ordinals from replicas and slots equal the desired set")
	}
	sym.Assert(int32(got2.Len()) == r, "C01", "exactly r ordinals (replicas+slots variant)")

	// the helpers are functions of their arguments: after all the calls above,
	// the same annotation text (on another object) still decodes to the same
	// set and gives the desired set of a larger replica count
	obj2 := vObj(obj.GetAnnotations())
	again := GetDeleteSlots(obj2)
	for x := 0; x < n; x++ {
		sym.Assert(again.Has(int32(x)) == S.has(int32(x)), "C01", "decoding does not depend on earlier calls")
	}
	for _, v := range S.vals {
		sym.Assert(again.Has(v), "C01", "decoding does not depend on earlier calls")
	}
	wantR := vDesired(int32(R), S, n)
	gotR := GetPodOrdinals(int32(R), obj2)
	for x := 0; x < n; x++ {
		sym.Assert(gotR.Has(int32(x)) == wantR[x], "C01", "pod ordinals at a larger replica count do not depend on earlier calls")
	}
	sym.Assert(gotR.Len() == R, "C01", "pod ordinals at a larger replica count do not depend on earlier calls")
}
