//go:build verif

package helper

// C19 (b): the annotation helpers are lossless and do not disturb other annotations.

import (
	metav1 "k8s.io/apimachinery/pkg/apis/meta/v1"
	"k8s.io/apimachinery/pkg/util/sets"

	"github.com/pingcap/advanced-statefulset/client/zz_verif/sym"
)

func init() {
	vHarnesses["VH_Annotations"] = VH_Annotations
}

func vHas(vals []int32, x int32) bool {
	c := false
	for _, v := range vals {
		c = sym.Or(c, v == x)
	}
	return c
}

// vOthers checks that every annotation except `key` is exactly what it was.
func vOthers(obj metav1.Object, had bool, key string) bool {
	ann := obj.GetAnnotations()
	n := 0
	for k := range ann {
		if k != key {
			n++
		}
	}
	if !had {
		return n == 0
	}
	return n == 2 && ann["other"] == "x" && ann["paused-reconcile-not"] == "y"
}

// VH_Annotations: a = [K].
func VH_Annotations(a []int) {
	K := a[0]
	var ann map[string]string
	had := false
	switch sym.Pick("annotations", 3) {
	case 1:
		ann = map[string]string{}
	case 2:
		ann = map[string]string{"other": "x", "paused-reconcile-not": "y"}
		had = true
	}
	obj := &metav1.ObjectMeta{Name: "web", Annotations: ann}
	// a set of k arbitrary int32
	k := sym.Pick("k", K+1)
	vals := make([]int32, k)
	for i := range vals {
		vals[i] = sym.Int32("slot")
	}
	var S sets.Int32
	if sym.Pick("nilset", 2) == 0 || k > 0 {
		S = sets.NewInt32(vals...)
	}
	err := SetDeleteSlots(obj, S)
	sym.Assert(err == nil, "C19", "writing a slot set succeeds")
	back := GetDeleteSlots(obj)
	for _, v := range vals {
		sym.Assert(back.Has(v), "C19", "every written slot is read back")
	}
	for v := range back {
		sym.Assert(vHas(vals, v), "C19", "nothing but the written slots is read back")
	}
	sym.Assert(back.Len() == S.Len(), "C19", "read-back set has the same size")
	_, present := obj.GetAnnotations()[DeleteSlotsAnn]
	sym.Assert(present == (k > 0), "C19", "an empty set removes the annotation, a non-empty one sets it")
	sym.Assert(vOthers(obj, had, DeleteSlotsAnn), "C19", "other annotations are untouched by the slot helpers")
	sym.Note("written", k, had)

	// adding slots yields the union
	m := sym.Pick("m", 2+1)
	more := make([]int32, m)
	for i := range more {
		more[i] = sym.Int32("more")
	}
	err = AddDeleteSlots(obj, sets.NewInt32(more...))
	sym.Assert(err == nil, "C19", "adding slots succeeds")
	union := GetDeleteSlots(obj)
	for _, v := range vals {
		sym.Assert(union.Has(v), "C19", "union keeps the old slots")
	}
	for _, v := range more {
		sym.Assert(union.Has(v), "C19", "union contains the added slots")
	}
	for v := range union {
		sym.Assert(sym.Or(vHas(vals, v), vHas(more, v)), "C19", "union contains nothing else")
	}
	sym.Assert(vOthers(obj, had, DeleteSlotsAnn), "C19", "other annotations are untouched by AddDeleteSlots")

	// writing the empty set removes the key again
	SetDeleteSlots(obj, sets.NewInt32())
	_, present = obj.GetAnnotations()[DeleteSlotsAnn]
	sym.Assert(!present, "C19", "writing an empty set removes the annotation")
	sym.Assert(GetDeleteSlots(obj).Len() == 0, "C19", "no slots after removal")

	// pause flag
	obj2 := &metav1.ObjectMeta{Name: "web", Annotations: nil}
	if had {
		obj2.Annotations = map[string]string{"other": "x", "paused-reconcile-not": "y"}
	}
	sym.Assert(!GetPausedReconcile(obj2), "C19", "not paused initially")
	SetPausedReconcile(obj2, true)
	sym.Assert(GetPausedReconcile(obj2), "C19", "pause flag reads back true")
	sym.Assert(vOthers(obj2, had, PausedReconcileAnn), "C19", "other annotations are untouched by the pause helpers")
	SetPausedReconcile(obj2, true)
	sym.Assert(GetPausedReconcile(obj2), "C19", "pausing twice is pausing once")
	SetPausedReconcile(obj2, false)
	sym.Assert(!GetPausedReconcile(obj2), "C19", "pause flag reads back false")
	_, present = obj2.GetAnnotations()[PausedReconcileAnn]
	sym.Assert(!present, "C19", "un-pausing removes the annotation")
	sym.Assert(vOthers(obj2, had, PausedReconcileAnn), "C19", "other annotations survive un-pausing")
	// slots and pause flag do not interfere
	SetPausedReconcile(obj, true)
	SetDeleteSlots(obj, sets.NewInt32(vals...))
	sym.Assert(GetPausedReconcile(obj), "C19", "writing slots keeps the pause flag")
	sym.Assert(GetDeleteSlots(obj).Len() == S.Len(), "C19", "pausing keeps the slots")
}
