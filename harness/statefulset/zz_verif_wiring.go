//go:build verif

package statefulset

// The real constructor NewStatefulSetController is run against informers that only
// record the event handlers it registers; events are then delivered through those
// handlers, so the wiring (which handler is registered for what, and the closures
// written inline in the constructor) is part of what is executed.
//
// Symbolic mode replaces record.NewBroadcaster, workqueue.NewNamedRateLimitingQueue and
// workqueue.DefaultControllerRateLimiter by the models below (spec stubs); the native
// replay runs the real ones.

import (
	"time"

	v1 "k8s.io/api/core/v1"
	"k8s.io/apimachinery/pkg/runtime"
	"k8s.io/apimachinery/pkg/watch"
	kubeappslisters "k8s.io/client-go/listers/apps/v1"
	corelisters "k8s.io/client-go/listers/core/v1"
	"k8s.io/client-go/tools/cache"
	"k8s.io/client-go/tools/record"
	"k8s.io/client-go/util/workqueue"
	"k8s.io/klog/v2"

	appslisters "github.com/pingcap/advanced-statefulset/client/client/listers/apps/v1"
)

type vHInformer struct {
	cache.SharedIndexInformer
	handlers []cache.ResourceEventHandler
}

func (i *vHInformer) AddEventHandler(h cache.ResourceEventHandler) (cache.ResourceEventHandlerRegistration, error) {
	i.handlers = append(i.handlers, h)
	return nil, nil
}
func (i *vHInformer) AddEventHandlerWithResyncPeriod(h cache.ResourceEventHandler, d time.Duration) (cache.ResourceEventHandlerRegistration, error) {
	i.handlers = append(i.handlers, h)
	return nil, nil
}
func (i *vHInformer) HasSynced() bool { return true }

type vPodInformer struct {
	inf *vHInformer
	w   *vWorld
}

func (p *vPodInformer) Informer() cache.SharedIndexInformer { return p.inf }
func (p *vPodInformer) Lister() corelisters.PodLister       { return &vPodLister{w: p.w} }

type vSetInformer struct {
	inf *vHInformer
	w   *vWorld
}

func (p *vSetInformer) Informer() cache.SharedIndexInformer   { return p.inf }
func (p *vSetInformer) Lister() appslisters.StatefulSetLister { return p.w.setLister() }

type vPVCInformer struct {
	inf *vHInformer
	w   *vWorld
}

func (p *vPVCInformer) Informer() cache.SharedIndexInformer { return p.inf }
func (p *vPVCInformer) Lister() corelisters.PersistentVolumeClaimLister {
	return &vPVCLister{w: p.w}
}

type vRevInformer struct{ inf *vHInformer }

func (p *vRevInformer) Informer() cache.SharedIndexInformer              { return p.inf }
func (p *vRevInformer) Lister() kubeappslisters.ControllerRevisionLister { return nil }

// vWired: the controller as its constructor builds it, plus the handlers it registered.
type vWired struct {
	ssc        *StatefulSetController
	pods, sets *vHInformer
	pvcs, revs *vHInformer
	q          *vQueue
}

func vNewWiredController(w *vWorld) *vWired {
	x := &vWired{pods: &vHInformer{}, sets: &vHInformer{}, pvcs: &vHInformer{}, revs: &vHInformer{}}
	x.ssc = NewStatefulSetController(&vPodInformer{inf: x.pods, w: w}, &vSetInformer{inf: x.sets, w: w},
		&vPVCInformer{inf: x.pvcs, w: w}, &vRevInformer{inf: x.revs}, &vKube{w: w}, &vAS{w: w})
	x.ssc.queue.ShutDown()
	x.q = &vQueue{}
	x.ssc.queue = x.q
	return x
}

// ---- models (symbolic mode only)

type vBroadcaster struct{ record.EventBroadcaster }

func (vBroadcaster) StartEventWatcher(eventHandler func(*v1.Event)) watch.Interface { return nil }
func (vBroadcaster) StartRecordingToSink(sink record.EventSink) watch.Interface     { return nil }
func (vBroadcaster) StartLogging(logf func(format string, args ...interface{})) watch.Interface {
	return nil
}
func (vBroadcaster) StartStructuredLogging(verbosity klog.Level) watch.Interface { return nil }
func (vBroadcaster) NewRecorder(scheme *runtime.Scheme, source v1.EventSource) record.EventRecorder {
	return vRecorder{}
}
func (vBroadcaster) Shutdown() {}

func vNewBroadcasterModel() record.EventBroadcaster { return vBroadcaster{} }

func vDefaultRateLimiterModel() workqueue.RateLimiter { return nil }

func vNewQueueModel(rl workqueue.RateLimiter, name string) workqueue.RateLimitingInterface {
	return &vQueue{}
}
