//go:build verif

package statefulset

// W-ctl: a tiny API server + informer caches behind the client-go interfaces
// the controller is written against. Every call is appended to a log; calls
// may fail according to symbolic fault variables. Plain Go: interpreted
// symbolically by the engine and compiled natively for replay.

import (
	"context"
	"fmt"
	"strings"

	kubeapps "k8s.io/api/apps/v1"
	v1 "k8s.io/api/core/v1"
	apierrors "k8s.io/apimachinery/pkg/api/errors"
	metav1 "k8s.io/apimachinery/pkg/apis/meta/v1"
	"k8s.io/apimachinery/pkg/labels"
	"k8s.io/apimachinery/pkg/runtime"
	"k8s.io/apimachinery/pkg/runtime/schema"
	"k8s.io/apimachinery/pkg/types"
	"k8s.io/client-go/kubernetes"
	appsv1client "k8s.io/client-go/kubernetes/typed/apps/v1"
	corev1client "k8s.io/client-go/kubernetes/typed/core/v1"
	corelisters "k8s.io/client-go/listers/core/v1"
	"k8s.io/client-go/tools/cache"

	apps "github.com/pingcap/advanced-statefulset/client/apis/apps/v1"
	asclientset "github.com/pingcap/advanced-statefulset/client/client/clientset/versioned"
	asappsv1 "github.com/pingcap/advanced-statefulset/client/client/clientset/versioned/typed/apps/v1"
	appslisters "github.com/pingcap/advanced-statefulset/client/client/listers/apps/v1"
	"github.com/pingcap/advanced-statefulset/client/zz_verif/sym"
	"github.com/pingcap/advanced-statefulset/pkg/third_party/k8s"
)

const (
	vNS       = "default"
	vSetName  = "web-1" // a name with '-' and a digit: "web-1-0" must parse as (web-1, 0)
	vSetUID   = types.UID("uid-set")
	vVariantK = "verif/variant"
)

// vOp is one API call as seen by the server.
type vOp struct {
	verb   string // pod.create pod.update pod.delete pod.patch pvc.create rev.list rev.create rev.update rev.delete rev.patch rev.get set.get set.updateStatus
	name   string
	failed bool
	pod    *v1.Pod
	rev    *kubeapps.ControllerRevision
	status *apps.StatefulSetStatus
	gen    int64
	patch  string
	write  bool
	// applied: the call returned an error but the write went through (lost response)
	applied bool
}

type vWorld struct {
	// informer caches (what listers return; pointers are the cached objects)
	pods []*v1.Pod
	pvcs []*v1.PersistentVolumeClaim
	sets []*apps.StatefulSet
	// API server state
	apiPods []*v1.Pod
	apiPVCs []*v1.PersistentVolumeClaim
	apiRevs []*kubeapps.ControllerRevision
	apiSets []*apps.StatefulSet

	ops []vOp

	// fault injection
	faultBudget int  // remaining faults that may still be injected
	faultKinds  int  // number of error kinds to choose from (1 = server error only)
	crashAt     bool // if set, an injected fault is a crash (sentinel panic) instead of an error
	faulted     []string
	uidSeq      int
	lost        bool // the last injected failure was a lost response: the write was applied
	// listerFaults: lookups in the claim cache may fail too (C06)
	listerFaults bool
	// faultOnly: if set, only calls with this verb may fail
	faultOnly string
	// faultKind: the error kind used when faultKinds == 1 (0 = server error)
	faultKind int
	// setLeavesCacheAfter: if > 0, the set informer cache loses its objects after that
	// many lookups (the set was deleted and re-created while the reconcile was in flight)
	setLeavesCacheAfter int
	setLookups          int
}

type vCrash struct{}

var vFaultKindNames = []string{"server-error", "conflict", "not-found", "already-exists", "timeout", "invalid"}

func (w *vWorld) record(op vOp) *vOp {
	w.ops = append(w.ops, op)
	return &w.ops[len(w.ops)-1]
}

// fault decides (symbolically) whether the current API call fails, and how.
func (w *vWorld) fault(verb, resource, name string) error {
	if w.faultBudget <= 0 || (w.faultOnly != "" && w.faultOnly != verb) {
		return nil
	}
	// the variable is named after the call's target, not its position, so that
	// code visiting objects in map order fails at the same object natively
	// (revision names are hashes of codec output: not part of the name)
	if strings.HasPrefix(verb, "rev.") {
		name = ""
	}
	if !sym.Bool("fault@" + verb + ":" + name) {
		return nil
	}
	w.faultBudget--
	if w.crashAt {
		w.faulted = append(w.faulted, verb+":crash")
		sym.Cover("crash injected")
		panic(vCrash{})
	}
	kind := w.faultKind
	if w.faultKinds > 1 {
		kind = sym.Pick("faultkind@"+verb+":"+name, w.faultKinds)
	}
	w.faulted = append(w.faulted, verb+":"+vFaultKindNames[kind])
	sym.Cover("fault injected at " + verb)
	// a failure may hide a write that went through: NotFound on delete means the
	// object is gone, AlreadyExists on create means it is there, a timeout may
	// have been applied or not
	w.lost = false
	switch {
	case kind == 4:
		w.lost = sym.Pick("applied@"+verb+":"+name, 2) == 1
	case kind == 2 && strings.HasSuffix(verb, ".delete"):
		w.lost = true
	case kind == 3 && strings.HasSuffix(verb, ".create"):
		w.lost = true
	}
	gr := schema.GroupResource{Resource: resource}
	switch kind {
	case 1:
		return apierrors.NewConflict(gr, name, fmt.Errorf("injected conflict"))
	case 2:
		return apierrors.NewNotFound(gr, name)
	case 3:
		return apierrors.NewAlreadyExists(gr, name)
	case 4:
		return apierrors.NewTimeoutError("injected timeout", 1)
	case 5:
		return apierrors.NewInvalid(schema.GroupKind{Kind: resource}, name, nil)
	}
	return apierrors.NewInternalError(fmt.Errorf("injected server error"))
}

// ---- kube clientset

type vKube struct {
	kubernetes.Interface
	w *vWorld
}

func (k *vKube) CoreV1() corev1client.CoreV1Interface { return &vCoreV1{w: k.w} }
func (k *vKube) AppsV1() appsv1client.AppsV1Interface { return &vAppsV1{w: k.w} }

type vCoreV1 struct {
	corev1client.CoreV1Interface
	w *vWorld
}

func (c *vCoreV1) Pods(ns string) corev1client.PodInterface     { return &vPods{w: c.w, ns: ns} }
func (c *vCoreV1) Events(ns string) corev1client.EventInterface { return nil }
func (c *vCoreV1) PersistentVolumeClaims(ns string) corev1client.PersistentVolumeClaimInterface {
	return &vPVCs{w: c.w, ns: ns}
}

type vPods struct {
	corev1client.PodInterface
	w  *vWorld
	ns string
}

func (p *vPods) find(name string) int {
	for i, q := range p.w.apiPods {
		if q.Name == name && q.Namespace == p.ns {
			return i
		}
	}
	return -1
}

func (p *vPods) Create(ctx context.Context, pod *v1.Pod, o metav1.CreateOptions) (*v1.Pod, error) {
	op := p.w.record(vOp{verb: "pod.create", name: pod.Name, pod: pod.DeepCopy(), write: true})
	ferr := p.w.fault("pod.create", "pods", pod.Name)
	if ferr != nil {
		op.failed = true
		op.applied = p.w.lost
		if !p.w.lost {
			return nil, ferr
		}
	}
	if p.find(pod.Name) >= 0 {
		op.failed = true
		return nil, apierrors.NewAlreadyExists(schema.GroupResource{Resource: "pods"}, pod.Name)
	}
	c := pod.DeepCopy()
	c.Namespace = p.ns
	c.Status.Phase = v1.PodPending
	p.w.uidSeq++
	c.UID = types.UID(fmt.Sprintf("uid-pod-%d", p.w.uidSeq))
	p.w.apiPods = append(p.w.apiPods, c)
	if ferr != nil {
		return nil, ferr
	}
	return c.DeepCopy(), nil
}

func (p *vPods) Update(ctx context.Context, pod *v1.Pod, o metav1.UpdateOptions) (*v1.Pod, error) {
	op := p.w.record(vOp{verb: "pod.update", name: pod.Name, pod: pod.DeepCopy(), write: true})
	ferr := p.w.fault("pod.update", "pods", pod.Name)
	if ferr != nil {
		op.failed = true
		op.applied = p.w.lost
		if !p.w.lost {
			return nil, ferr
		}
	}
	i := p.find(pod.Name)
	if i < 0 {
		op.failed = true
		return nil, apierrors.NewNotFound(schema.GroupResource{Resource: "pods"}, pod.Name)
	}
	p.w.apiPods[i] = pod.DeepCopy()
	if ferr != nil {
		return nil, ferr
	}
	return pod.DeepCopy(), nil
}

func (p *vPods) Delete(ctx context.Context, name string, o metav1.DeleteOptions) error {
	op := p.w.record(vOp{verb: "pod.delete", name: name, write: true})
	ferr := p.w.fault("pod.delete", "pods", name)
	if ferr != nil {
		op.failed = true
		op.applied = p.w.lost
		if !p.w.lost {
			return ferr
		}
	}
	i := p.find(name)
	if i < 0 {
		op.failed = true
		return apierrors.NewNotFound(schema.GroupResource{Resource: "pods"}, name)
	}
	op.pod = p.w.apiPods[i]
	if ferr != nil && apierrors.IsNotFound(ferr) {
		// "not found": somebody else removed the pod for good
		p.w.apiPods = append(p.w.apiPods[:i:i], p.w.apiPods[i+1:]...)
		return ferr
	}
	// graceful deletion: the pod stays, marked terminating, until the kubelet is done
	if p.w.apiPods[i].DeletionTimestamp == nil {
		c := p.w.apiPods[i].DeepCopy()
		c.DeletionTimestamp = &metav1.Time{}
		p.w.apiPods[i] = c
	}
	return ferr
}

func (p *vPods) Patch(ctx context.Context, name string, pt types.PatchType, data []byte, o metav1.PatchOptions, sub ...string) (*v1.Pod, error) {
	op := p.w.record(vOp{verb: "pod.patch", name: name, patch: string(data), write: true})
	if err := p.w.fault("pod.patch", "pods", name); err != nil {
		op.failed = true
		if apierrors.IsNotFound(err) {
			// NotFound means what it says: the pod has disappeared in the meantime
			if i := p.find(name); i >= 0 {
				p.w.apiPods = append(p.w.apiPods[:i:i], p.w.apiPods[i+1:]...)
			}
			op.applied = true
		}
		return nil, err
	}
	i := p.find(name)
	if i < 0 {
		op.failed = true
		return nil, apierrors.NewNotFound(schema.GroupResource{Resource: "pods"}, name)
	}
	c := p.w.apiPods[i].DeepCopy()
	// the only patches the controller sends add or delete one owner reference
	if strings.Contains(string(data), `"$patch":"delete"`) {
		var kept []metav1.OwnerReference
		for _, r := range c.OwnerReferences {
			if !strings.Contains(string(data), `"uid":"`+string(r.UID)+`"`) {
				kept = append(kept, r)
			}
		}
		c.OwnerReferences = kept
	} else if strings.Contains(string(data), `"ownerReferences":[{`) {
		t := true
		c.OwnerReferences = append(c.OwnerReferences, metav1.OwnerReference{
			APIVersion: controllerKind.GroupVersion().String(), Kind: controllerKind.Kind,
			Name: vSetName, UID: vUIDIn(string(data)), Controller: &t, BlockOwnerDeletion: &t})
	}
	p.w.apiPods[i] = c
	return c.DeepCopy(), nil
}

// vUIDIn extracts the owner uid from an adoption patch.
func vUIDIn(patch string) types.UID {
	// {"metadata":{"ownerReferences":[{...,"uid":"<owner>"}],"uid":"<object>"}}
	k := strings.Index(patch, `"ownerReferences"`)
	if k < 0 {
		return ""
	}
	rest := patch[k:]
	u := strings.Index(rest, `"uid":"`)
	if u < 0 {
		return ""
	}
	rest = rest[u+len(`"uid":"`):]
	e := strings.Index(rest, `"`)
	if e < 0 {
		return ""
	}
	return types.UID(rest[:e])
}

type vPVCs struct {
	corev1client.PersistentVolumeClaimInterface
	w  *vWorld
	ns string
}

func (p *vPVCs) Create(ctx context.Context, c *v1.PersistentVolumeClaim, o metav1.CreateOptions) (*v1.PersistentVolumeClaim, error) {
	op := p.w.record(vOp{verb: "pvc.create", name: c.Name, write: true})
	ferr := p.w.fault("pvc.create", "persistentvolumeclaims", c.Name)
	if ferr != nil {
		op.failed = true
		op.applied = p.w.lost
		if !p.w.lost {
			return nil, ferr
		}
	}
	for _, q := range p.w.apiPVCs {
		if q.Name == c.Name {
			op.failed = true
			return nil, apierrors.NewAlreadyExists(schema.GroupResource{Resource: "persistentvolumeclaims"}, c.Name)
		}
	}
	p.w.apiPVCs = append(p.w.apiPVCs, c.DeepCopy())
	if ferr != nil {
		return nil, ferr
	}
	return c.DeepCopy(), nil
}

type vAppsV1 struct {
	appsv1client.AppsV1Interface
	w *vWorld
}

func (a *vAppsV1) ControllerRevisions(ns string) appsv1client.ControllerRevisionInterface {
	return &vRevs{w: a.w, ns: ns}
}

type vRevs struct {
	appsv1client.ControllerRevisionInterface
	w  *vWorld
	ns string
}

func (r *vRevs) find(name string) int {
	for i, x := range r.w.apiRevs {
		if x.Name == name {
			return i
		}
	}
	return -1
}

func (r *vRevs) List(ctx context.Context, o metav1.ListOptions) (*kubeapps.ControllerRevisionList, error) {
	op := r.w.record(vOp{verb: "rev.list", name: o.LabelSelector})
	if err := r.w.fault("rev.list", "controllerrevisions", ""); err != nil {
		op.failed = true
		return nil, err
	}
	out := &kubeapps.ControllerRevisionList{}
	for _, x := range r.w.apiRevs {
		if vSelectorMatches(o.LabelSelector, x.Labels) {
			out.Items = append(out.Items, *x.DeepCopy())
		}
	}
	return out, nil
}

func (r *vRevs) Create(ctx context.Context, rev *kubeapps.ControllerRevision, o metav1.CreateOptions) (*kubeapps.ControllerRevision, error) {
	op := r.w.record(vOp{verb: "rev.create", name: rev.Name, rev: rev.DeepCopy(), write: true})
	ferr := r.w.fault("rev.create", "controllerrevisions", rev.Name)
	if ferr != nil {
		op.failed = true
		op.applied = r.w.lost
		if !r.w.lost {
			return nil, ferr
		}
	}
	if r.find(rev.Name) >= 0 {
		op.failed = true
		return nil, apierrors.NewAlreadyExists(schema.GroupResource{Resource: "controllerrevisions"}, rev.Name)
	}
	c := rev.DeepCopy()
	c.Namespace = r.ns
	r.w.uidSeq++
	c.UID = types.UID(fmt.Sprintf("uid-rev-%d", r.w.uidSeq))
	r.w.apiRevs = append(r.w.apiRevs, c)
	if ferr != nil {
		return nil, ferr
	}
	return c.DeepCopy(), nil
}

func (r *vRevs) Update(ctx context.Context, rev *kubeapps.ControllerRevision, o metav1.UpdateOptions) (*kubeapps.ControllerRevision, error) {
	op := r.w.record(vOp{verb: "rev.update", name: rev.Name, rev: rev.DeepCopy(), write: true})
	ferr := r.w.fault("rev.update", "controllerrevisions", rev.Name)
	if ferr != nil {
		op.failed = true
		op.applied = r.w.lost
		if !r.w.lost {
			return nil, ferr
		}
	}
	i := r.find(rev.Name)
	if i < 0 {
		op.failed = true
		return nil, apierrors.NewNotFound(schema.GroupResource{Resource: "controllerrevisions"}, rev.Name)
	}
	r.w.apiRevs[i] = rev.DeepCopy()
	if ferr != nil {
		return nil, ferr
	}
	return rev.DeepCopy(), nil
}

func (r *vRevs) Delete(ctx context.Context, name string, o metav1.DeleteOptions) error {
	op := r.w.record(vOp{verb: "rev.delete", name: name, write: true})
	ferr := r.w.fault("rev.delete", "controllerrevisions", name)
	if ferr != nil {
		op.failed = true
		op.applied = r.w.lost
		if !r.w.lost {
			return ferr
		}
	}
	i := r.find(name)
	if i < 0 {
		op.failed = true
		return apierrors.NewNotFound(schema.GroupResource{Resource: "controllerrevisions"}, name)
	}
	op.rev = r.w.apiRevs[i]
	r.w.apiRevs = append(r.w.apiRevs[:i:i], r.w.apiRevs[i+1:]...)
	return ferr
}

func (r *vRevs) Get(ctx context.Context, name string, o metav1.GetOptions) (*kubeapps.ControllerRevision, error) {
	op := r.w.record(vOp{verb: "rev.get", name: name})
	if err := r.w.fault("rev.get", "controllerrevisions", name); err != nil {
		op.failed = true
		return nil, err
	}
	i := r.find(name)
	if i < 0 {
		op.failed = true
		return nil, apierrors.NewNotFound(schema.GroupResource{Resource: "controllerrevisions"}, name)
	}
	return r.w.apiRevs[i].DeepCopy(), nil
}

func (r *vRevs) Patch(ctx context.Context, name string, pt types.PatchType, data []byte, o metav1.PatchOptions, sub ...string) (*kubeapps.ControllerRevision, error) {
	op := r.w.record(vOp{verb: "rev.patch", name: name, patch: string(data), write: true})
	if err := r.w.fault("rev.patch", "controllerrevisions", name); err != nil {
		op.failed = true
		return nil, err
	}
	i := r.find(name)
	if i < 0 {
		op.failed = true
		return nil, apierrors.NewNotFound(schema.GroupResource{Resource: "controllerrevisions"}, name)
	}
	op.rev = r.w.apiRevs[i]
	c := r.w.apiRevs[i].DeepCopy()
	if strings.Contains(string(data), `"ownerReferences":[{`) {
		t := true
		c.OwnerReferences = append(c.OwnerReferences, metav1.OwnerReference{
			APIVersion: controllerKind.GroupVersion().String(), Kind: controllerKind.Kind,
			Name: vSetName, UID: vUIDIn(string(data)), Controller: &t, BlockOwnerDeletion: &t})
	}
	r.w.apiRevs[i] = c
	return c.DeepCopy(), nil
}

// vSelectorMatches evaluates an equality-based selector string ("k=v,k2=v2",
// "k in (v)" is not used by the controller) against a label map.
func vSelectorMatches(selector string, lbls map[string]string) bool {
	if selector == "" {
		return true
	}
	for _, req := range strings.Split(selector, ",") {
		if strings.HasPrefix(req, "!") && !strings.ContainsAny(req, "=, ()") {
			if _, ok := lbls[req[1:]]; ok { // "!key": the key must be absent
				return false
			}
			continue
		}
		if k := strings.Index(req, " notin ("); k > 0 && strings.HasSuffix(req, ")") && !strings.Contains(req[k+8:], ",") {
			if v, ok := lbls[req[:k]]; ok && v == req[k+8:len(req)-1] { // "key notin (value)"
				return false
			}
			continue
		}
		kv := strings.SplitN(req, "=", 2)
		if len(kv) != 2 {
			sel, err := labels.Parse(selector)
			return err == nil && sel.Matches(labels.Set(lbls))
		}
		if v, ok := lbls[kv[0]]; !ok || v != strings.TrimPrefix(kv[1], "=") {
			return false
		}
	}
	return true
}

// ---- advanced clientset

type vAS struct {
	asclientset.Interface
	w *vWorld
}

func (a *vAS) AppsV1() asappsv1.AppsV1Interface { return &vASApps{w: a.w} }

type vASApps struct {
	asappsv1.AppsV1Interface
	w *vWorld
}

func (a *vASApps) StatefulSets(ns string) asappsv1.StatefulSetInterface {
	return &vSets{w: a.w, ns: ns}
}

type vSets struct {
	asappsv1.StatefulSetInterface
	w  *vWorld
	ns string
}

func (s *vSets) Get(ctx context.Context, name string, o metav1.GetOptions) (*apps.StatefulSet, error) {
	op := s.w.record(vOp{verb: "set.get", name: name})
	if err := s.w.fault("set.get", "statefulsets", name); err != nil {
		op.failed = true
		return nil, err
	}
	for _, x := range s.w.apiSets {
		if x.Name == name && x.Namespace == s.ns {
			return x.DeepCopy(), nil
		}
	}
	op.failed = true
	return nil, apierrors.NewNotFound(schema.GroupResource{Resource: "statefulsets"}, name)
}

func (s *vSets) UpdateStatus(ctx context.Context, set *apps.StatefulSet, o metav1.UpdateOptions) (*apps.StatefulSet, error) {
	op := s.w.record(vOp{verb: "set.updateStatus", name: set.Name, status: set.Status.DeepCopy(), gen: set.Generation, write: true})
	ferr := s.w.fault("set.updateStatus", "statefulsets", set.Name)
	if ferr != nil {
		op.failed = true
		op.applied = s.w.lost
		if !s.w.lost {
			return nil, ferr
		}
	}
	for i, x := range s.w.apiSets {
		if x.Name == set.Name && x.Namespace == s.ns {
			c := x.DeepCopy()
			c.Status = *set.Status.DeepCopy()
			s.w.apiSets[i] = c
			if ferr != nil {
				return nil, ferr
			}
			return c.DeepCopy(), nil
		}
	}
	op.failed = true
	return nil, apierrors.NewNotFound(schema.GroupResource{Resource: "statefulsets"}, set.Name)
}

// ---- listers (informer caches)

type vPodLister struct{ w *vWorld }

func (l *vPodLister) List(sel labels.Selector) ([]*v1.Pod, error) { return l.Pods("").List(sel) }
func (l *vPodLister) Pods(ns string) corelisters.PodNamespaceLister {
	return &vPodNsLister{w: l.w, ns: ns}
}

type vPodNsLister struct {
	w  *vWorld
	ns string
}

func (l *vPodNsLister) List(sel labels.Selector) ([]*v1.Pod, error) {
	var out []*v1.Pod
	for _, p := range l.w.pods {
		if (l.ns == "" || p.Namespace == l.ns) && sel.Matches(labels.Set(p.Labels)) {
			out = append(out, p)
		}
	}
	return out, nil
}

func (l *vPodNsLister) Get(name string) (*v1.Pod, error) {
	for _, p := range l.w.pods {
		if p.Name == name && p.Namespace == l.ns {
			return p, nil
		}
	}
	return nil, apierrors.NewNotFound(schema.GroupResource{Resource: "pods"}, name)
}

type vPVCLister struct{ w *vWorld }

func (l *vPVCLister) List(sel labels.Selector) ([]*v1.PersistentVolumeClaim, error) {
	return l.w.pvcs, nil
}
func (l *vPVCLister) PersistentVolumeClaims(ns string) corelisters.PersistentVolumeClaimNamespaceLister {
	return &vPVCNsLister{w: l.w, ns: ns}
}

type vPVCNsLister struct {
	w  *vWorld
	ns string
}

func (l *vPVCNsLister) List(sel labels.Selector) ([]*v1.PersistentVolumeClaim, error) {
	return l.w.pvcs, nil
}
func (l *vPVCNsLister) Get(name string) (*v1.PersistentVolumeClaim, error) {
	if l.w.listerFaults {
		op := l.w.record(vOp{verb: "pvc.get", name: name})
		if l.w.faultBudget > 0 && sym.Bool("fault@pvc.get:"+name) {
			l.w.faultBudget--
			op.failed = true
			sym.Cover("fault injected at pvc.get")
			return nil, apierrors.NewInternalError(fmt.Errorf("injected cache error"))
		}
	}
	for _, p := range l.w.pvcs {
		if p.Name == name {
			return p, nil
		}
	}
	return nil, apierrors.NewNotFound(schema.GroupResource{Resource: "persistentvolumeclaims"}, name)
}

// vSetIndexer is the store underneath the real generated StatefulSetLister.
type vSetIndexer struct {
	cache.Indexer
	w *vWorld
}

func (x *vSetIndexer) List() []interface{} {
	var out []interface{}
	for _, s := range x.w.sets {
		out = append(out, s)
	}
	return out
}
func (x *vSetIndexer) GetByKey(key string) (interface{}, bool, error) {
	x.w.setLookups++
	if x.w.setLeavesCacheAfter > 0 && x.w.setLookups > x.w.setLeavesCacheAfter {
		return nil, false, nil
	}
	for _, s := range x.w.sets {
		if s.Namespace+"/"+s.Name == key {
			return s, true, nil
		}
	}
	return nil, false, nil
}
func (x *vSetIndexer) ByIndex(indexName, indexedValue string) ([]interface{}, error) {
	if indexName != cache.NamespaceIndex {
		return nil, fmt.Errorf("unknown index %s", indexName)
	}
	var out []interface{}
	for _, s := range x.w.sets {
		if s.Namespace == indexedValue {
			out = append(out, s)
		}
	}
	return out, nil
}
func (x *vSetIndexer) Index(indexName string, obj interface{}) ([]interface{}, error) {
	m, ok := obj.(*metav1.ObjectMeta)
	if !ok {
		return nil, fmt.Errorf("unexpected index object %T", obj)
	}
	return x.ByIndex(indexName, m.Namespace)
}

func (w *vWorld) setLister() appslisters.StatefulSetLister {
	return appslisters.NewStatefulSetLister(&vSetIndexer{w: w})
}

// ---- recorder

type vRecorder struct{}

func (vRecorder) Event(object runtime.Object, eventtype, reason, message string) {}
func (vRecorder) Eventf(object runtime.Object, eventtype, reason, messageFmt string, args ...interface{}) {
}
func (vRecorder) AnnotatedEventf(object runtime.Object, annotations map[string]string, eventtype, reason, messageFmt string, args ...interface{}) {
}

// ---- models of the codec functions (symbolic mode only; the native replay runs the real ones)

func vGetPatchModel(set *apps.StatefulSet) ([]byte, error) {
	return []byte("T=" + set.Spec.Template.Annotations[vVariantK]), nil
}

func vApplyRevisionModel(set *apps.StatefulSet, rev *kubeapps.ControllerRevision) (*apps.StatefulSet, error) {
	c := set.DeepCopy()
	if c.Spec.Template.Annotations == nil {
		c.Spec.Template.Annotations = map[string]string{}
	}
	c.Spec.Template.Annotations[vVariantK] = vVariantOfRaw(string(rev.Data.Raw))
	return c, nil
}

// vVariantOfRaw recovers the template variant recorded in revision data, for
// the model encoding ("T=A") and for the real strategic-merge patch alike.
func vVariantOfRaw(raw string) string {
	if strings.HasPrefix(raw, "T=") {
		return raw[2:]
	}
	k := strings.Index(raw, `"`+vVariantK+`":"`)
	if k < 0 {
		return "?"
	}
	rest := raw[k+len(vVariantK)+4:]
	e := strings.Index(rest, `"`)
	if e < 0 {
		return "?"
	}
	return rest[:e]
}

// ---- construction helpers

func vNewSet(replicas int32) *apps.StatefulSet {
	part := int32(0)
	hist := int32(10)
	return &apps.StatefulSet{
		TypeMeta:   metav1.TypeMeta{Kind: "StatefulSet", APIVersion: "apps.pingcap.com/v1"},
		ObjectMeta: metav1.ObjectMeta{Name: vSetName, Namespace: vNS, UID: vSetUID, Generation: 3},
		Spec: apps.StatefulSetSpec{
			Replicas: &replicas,
			Selector: &metav1.LabelSelector{MatchLabels: map[string]string{"app": "web"}},
			Template: v1.PodTemplateSpec{
				ObjectMeta: metav1.ObjectMeta{Labels: map[string]string{"app": "web"}, Annotations: map[string]string{vVariantK: "B"}},
				Spec:       v1.PodSpec{Containers: []v1.Container{{Name: "c", Image: "nginx"}}},
			},
			VolumeClaimTemplates: []v1.PersistentVolumeClaim{{ObjectMeta: metav1.ObjectMeta{Name: "data", Labels: map[string]string{"tier": "storage"}}}},
			ServiceName:          "svc",
			PodManagementPolicy:  apps.OrderedReadyPodManagement,
			UpdateStrategy:       apps.StatefulSetUpdateStrategy{Type: apps.RollingUpdateStatefulSetStrategyType, RollingUpdate: &apps.RollingUpdateStatefulSetStrategy{Partition: &part}},
			RevisionHistoryLimit: &hist,
		},
	}
}

// vRevision builds the revision the controller itself would record for set
// with template variant `variant` (real newRevision, i.e. real or modelled codec).
func vRevision(set *apps.StatefulSet, variant string, n int64) *kubeapps.ControllerRevision {
	c := set.DeepCopy()
	c.Spec.Template.Annotations[vVariantK] = variant
	cc := int32(0)
	rev, err := newRevision(c, n, &cc)
	if err != nil {
		panic(err)
	}
	rev.Namespace = set.Namespace
	rev.UID = types.UID("uid-rev-" + variant)
	return rev
}

func vNewController(w *vWorld) *StatefulSetController {
	kube := &vKube{w: w}
	as := &vAS{w: w}
	setLister := w.setLister()
	rec := vRecorder{}
	return &StatefulSetController{
		kubeClient: kube,
		pcClient:   as,
		control: NewDefaultStatefulSetControl(
			NewRealStatefulPodControl(kube, setLister, &vPodLister{w: w}, &vPVCLister{w: w}, rec),
			NewRealStatefulSetStatusUpdater(as, setLister),
			kube.AppsV1(), rec),
		podControl: k8s.RealPodControl{KubeClient: kube, Recorder: rec},
		podLister:  &vPodLister{w: w},
		setLister:  setLister,
	}
}

// vVariantName names a revision by the template variant it records, because
// controller-made revision names are hashes of codec output (model != real).
func (w *vWorld) vVariantName(name string, known map[string]string) string {
	if v, ok := known[name]; ok {
		return v
	}
	if name == "" {
		return "-"
	}
	for _, r := range w.apiRevs {
		if r.Name == name {
			return "rev(" + vVariantOfRaw(string(r.Data.Raw)) + ")"
		}
	}
	return "rev?"
}

// vOrd parses the ordinal of a pod name of this set (-1 if it is not one).
func vOrd(name string) int {
	p := &v1.Pod{}
	p.Name = name
	parent, ord := getParentNameAndOrdinal(p)
	if parent != vSetName {
		return -1
	}
	return ord
}
