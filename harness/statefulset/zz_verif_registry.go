//go:build verif

package statefulset

// vHarnesses maps harness names to entry points (used by the native replay).
var vHarnesses = map[string]func([]int){}
