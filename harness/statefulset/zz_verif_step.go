//go:build verif

package statefulset

// One reconcile (UpdateStatefulSet) from an arbitrary symbolic snapshot, with
// monitors over the API write log for C03, C04, C05, C07, C12, C14.

import (
	"fmt"

	kubeapps "k8s.io/api/apps/v1"
	v1 "k8s.io/api/core/v1"
	metav1 "k8s.io/apimachinery/pkg/apis/meta/v1"

	apps "github.com/pingcap/advanced-statefulset/client/apis/apps/v1"
	"github.com/pingcap/advanced-statefulset/client/apis/apps/v1/helper"
	"github.com/pingcap/advanced-statefulset/client/zz_verif/sym"
)

func init() {
	vHarnesses["VH_Step"] = VH_Step
}

// monitor bits
const (
	mC03 = 1 << iota
	mC04
	mC05
	mC07
	mC12
	mC14
)

// snapshot option bits
const (
	oPolicyOrdered  = 1 << iota // fix policy = OrderedReady
	oPolicyParallel             // fix policy = Parallel
	oNoRollout                  // current revision == update revision only
	oDeleting                   // the set carries a deletion timestamp (symbolic choice)
	oLeanPods                   // pods are healthy unless stated: only ordinal, revision and terminating vary
	oRollingOnly                // strategy fixed to RollingUpdate with a partition block
	oFaults                     // one API call may fail (server error)
	oThreeRevs                  // pods may carry a third (neither current nor update) revision
	oStatusSym                  // generation and the stored status are arbitrary (else fixed)
	oStatusConflict             // the status write may hit a conflict (and is then retried)
	oBase8                      // ordinals 0..7 hold healthy up-to-date pods; the symbolic part of the world starts at ordinal 8
	oWildSlots                  // delete-slot values are arbitrary int32 (negative, extreme, duplicates)
	oStalePods                  // a pod may exist on the API server without being in the informer cache yet
	oDeleteGone                 // a pod delete may find the pod already gone (stale cache): NotFound
	oNoHistory                  // revisionHistoryLimit 0: every revision that is not live is trimmed at once
	oViaSync                    // the reconcile is the per-key sync (listing, claiming, then UpdateStatefulSet) instead of UpdateStatefulSet on the snapshot
	oOrphanPods                 // a pod of the snapshot may be an orphan waiting for adoption (no controller reference)
)

type vPodInfo struct {
	pod   *v1.Pod
	ord   int
	term  bool
	phase string // symbolic (finite domain)
	ready string // symbolic condition status
	rev   string // symbolic revision label
}

type vSnap struct {
	w        *vWorld
	set      *apps.StatefulSet
	cur, upd *kubeapps.ControllerRevision
	names    map[string]string // revision name -> stable label for traces
	pods     []*vPodInfo
	hidden   []*vPodInfo // pods on the API server that the caches do not show yet
	r        int32
	slots    []int32
	base     int    // ordinals below base are concrete healthy desired pods
	n        int    // universe of ordinals [0,n)
	desired  []bool // D(r,S) on the universe
	inSlot   []bool
	rolling  bool  // strategy == RollingUpdate (symbolic)
	partOK   bool  // rollingUpdate block present
	part     int32 // partition (0 when the block is absent)
	parallel bool  // symbolic
	deleting bool
}

func (s *vSnap) podAt(ord int) *vPodInfo {
	for _, p := range s.pods {
		if p.ord == ord {
			return p
		}
	}
	return nil
}

func (s *vSnap) podNamed(name string) *vPodInfo {
	for _, p := range s.pods {
		if p.pod.Name == name {
			return p
		}
	}
	return nil
}

func (p *vPodInfo) runningReady() bool {
	return sym.And(p.phase == string(v1.PodRunning), p.ready == string(v1.ConditionTrue))
}
func (p *vPodInfo) healthy() bool { return sym.And(p.runningReady(), !p.term) }
func (p *vPodInfo) finished() bool {
	return sym.Or(p.phase == string(v1.PodFailed), p.phase == string(v1.PodSucceeded))
}

// vMalformedSlots are delete-slots values the decoder rejects as a whole
// (syntax errors, and well-formed lists with an entry that is not an int32).
var vMalformedSlots = []string{"x", "[1,", "[1.5]", "[1, 5000000000]", "[0, \"1\", 2]", "[\"0\"]"}

// vBuildSnap builds the symbolic snapshot. N pods at most, replicas <= R, at
// most K delete slots.
func vBuildSnap(N, R, K, opts int) *vSnap {
	s := &vSnap{w: &vWorld{}, n: R + K + 1}
	if opts&oBase8 != 0 {
		s.base = 8
		s.n += s.base
	}
	w := s.w
	s.r = int32(s.base) + int32(sym.IntIn("r", 0, R))
	set := vNewSet(s.r)
	if opts&oNoHistory != 0 {
		*set.Spec.RevisionHistoryLimit = 0
	}
	// delete slots: values anywhere in the universe (below, inside, above the range)
	k := sym.Pick("k", K+1)
	for i := 0; i < k; i++ {
		if opts&oWildSlots != 0 {
			s.slots = append(s.slots, sym.Int32("slot"))
		} else {
			s.slots = append(s.slots, int32(sym.IntIn("slot", s.base, s.n-1)))
		}
	}
	if k > 0 {
		set.Annotations = map[string]string{helper.DeleteSlotsAnn: sym.SlotsJSON(s.slots)}
	}
	if opts&oWildSlots != 0 && k == 0 {
		// an annotation value that does not decode to a list of int32 means "no slots"
		if j := sym.Pick("malformed", len(vMalformedSlots)+1); j > 0 {
			set.Annotations = map[string]string{helper.DeleteSlotsAnn: vMalformedSlots[j-1]}
			sym.Cover("delete-slots annotation that does not decode")
		}
	}
	// desired set oracle
	s.desired = make([]bool, s.n)
	s.inSlot = make([]bool, s.n)
	cnt := int32(0)
	for x := 0; x < s.n; x++ {
		in := false
		for _, v := range s.slots {
			in = sym.Or(in, v == int32(x))
		}
		s.inSlot[x] = in
		s.desired[x] = sym.And(sym.Not(in), cnt < s.r)
		cnt = sym.Ite32(in, cnt, cnt+1)
	}
	// policy
	switch {
	case opts&oPolicyOrdered != 0:
		set.Spec.PodManagementPolicy = apps.OrderedReadyPodManagement
	case opts&oPolicyParallel != 0:
		set.Spec.PodManagementPolicy = apps.ParallelPodManagement
		s.parallel = true
	default:
		pol := sym.Str("policy", string(apps.OrderedReadyPodManagement), string(apps.ParallelPodManagement))
		set.Spec.PodManagementPolicy = apps.PodManagementPolicyType(pol)
		s.parallel = pol == string(apps.ParallelPodManagement)
	}
	// update strategy
	if opts&oRollingOnly != 0 {
		p := sym.Int32("partition")
		sym.Assume(p >= 0)
		set.Spec.UpdateStrategy.RollingUpdate.Partition = &p
		s.rolling, s.partOK, s.part = true, true, p
	} else {
		st := sym.Str("strategy", string(apps.RollingUpdateStatefulSetStrategyType), string(apps.OnDeleteStatefulSetStrategyType))
		set.Spec.UpdateStrategy.Type = apps.StatefulSetUpdateStrategyType(st)
		s.rolling = st == string(apps.RollingUpdateStatefulSetStrategyType)
		if sym.Pick("rublock", 2) == 1 {
			p := sym.Int32("partition")
			sym.Assume(p >= 0)
			set.Spec.UpdateStrategy.RollingUpdate.Partition = &p
			s.partOK, s.part = true, p
		} else {
			set.Spec.UpdateStrategy.RollingUpdate = nil
		}
	}
	if opts&oDeleting != 0 && sym.Pick("deleting", 2) == 1 {
		set.DeletionTimestamp = &metav1.Time{}
		s.deleting = true
	}
	// generation and stored status
	if opts&oStatusSym != 0 {
		set.Generation = sym.Int64("generation")
		set.Status.ObservedGeneration = sym.Int64("observed")
		sym.Assume(set.Status.ObservedGeneration <= set.Generation)
		set.Status.Replicas = sym.Int32("st.replicas")
		set.Status.ReadyReplicas = sym.Int32("st.ready")
		set.Status.CurrentReplicas = sym.Int32("st.current")
		set.Status.UpdatedReplicas = sym.Int32("st.updated")
	} else {
		set.Status.ObservedGeneration = 2
		// the legacy "below status.currentReplicas" rule reads this one field
		set.Status.CurrentReplicas = int32(sym.IntIn("st.current", 0, R))
	}
	// revisions: update = template B; current = B (no rollout) or A (rollout in progress)
	s.names = map[string]string{}
	s.upd = vRevision(set, "B", 2)
	s.cur = s.upd
	if opts&oNoRollout == 0 && sym.Pick("rollout", 2) == 1 {
		s.cur = vRevision(set, "A", 1)
		w.apiRevs = append(w.apiRevs, s.cur)
		s.names[s.cur.Name] = "rev(A)"
	}
	w.apiRevs = append(w.apiRevs, s.upd)
	s.names[s.upd.Name] = "rev(B)"
	set.Status.CurrentRevision = s.cur.Name
	set.Status.UpdateRevision = s.upd.Name
	s.set = set
	w.sets = []*apps.StatefulSet{set}
	w.apiSets = []*apps.StatefulSet{set.DeepCopy()}

	// below the base every desired ordinal holds a healthy, up-to-date pod
	for b := 0; b < s.base; b++ {
		pod := newStatefulSetPod(set, b)
		pod.UID = "uid-snap-pod"
		pod.Status.Phase = v1.PodRunning
		pod.Status.Conditions = []v1.PodCondition{{Type: v1.PodReady, Status: v1.ConditionTrue}}
		setPodRevision(pod, s.upd.Name)
		s.pods = append(s.pods, &vPodInfo{pod: pod, ord: b, phase: string(v1.PodRunning), ready: string(v1.ConditionTrue), rev: s.upd.Name})
		w.pods = append(w.pods, pod)
		w.apiPods = append(w.apiPods, pod.DeepCopy())
		for _, c := range getPersistentVolumeClaims(set, pod) {
			c := c
			w.pvcs = append(w.pvcs, &c)
			w.apiPVCs = append(w.apiPVCs, c.DeepCopy())
		}
	}
	// pods: increasing ordinals, each attribute symbolic
	next := s.base
	for i := 0; i < N; i++ {
		room := s.n - next
		if room <= 0 {
			break
		}
		c := sym.Pick("ord", room+1)
		if c == room {
			break // no further pod
		}
		ord := next + c
		next = ord + 1
		pi := &vPodInfo{ord: ord}
		pod := newStatefulSetPod(set, ord)
		pod.UID = "uid-snap-pod"
		if opts&oLeanPods != 0 {
			pi.phase, pi.ready = string(v1.PodRunning), string(v1.ConditionTrue)
		} else {
			pi.phase = sym.Str("phase", string(v1.PodPending), string(v1.PodRunning), string(v1.PodSucceeded), string(v1.PodFailed), string(v1.PodUnknown))
			pi.ready = sym.Str("ready", string(v1.ConditionTrue), string(v1.ConditionFalse))
		}
		pod.Status.Phase = v1.PodPhase(pi.phase)
		pod.Status.Conditions = []v1.PodCondition{{Type: v1.PodReady, Status: v1.ConditionStatus(pi.ready)}}
		if sym.Pick("terminating", 2) == 1 {
			pod.DeletionTimestamp = &metav1.Time{}
			pi.term = true
		}
		if opts&oThreeRevs != 0 {
			pi.rev = sym.Str("rev", s.cur.Name, s.upd.Name, vSetName+"-other")
		} else {
			pi.rev = sym.Str("rev", s.cur.Name, s.upd.Name)
		}
		setPodRevision(pod, pi.rev)
		// (an orphan that is already terminating is ignored by the claim logic and is not part of what
		// the reconcile sees; the monitors speak about the snapshot the reconcile saw)
		if opts&oOrphanPods != 0 && !pi.term && sym.Pick("orphan", 2) == 1 {
			pod.OwnerReferences = nil
			sym.Cover("an orphan pod waits for adoption")
		}
		pi.pod = pod
		if opts&oStalePods != 0 && sym.Pick("stale", 2) == 1 {
			// created a moment ago: on the server, not yet in the cache the reconcile reads
			w.apiPods = append(w.apiPods, pod.DeepCopy())
			s.hidden = append(s.hidden, pi)
			sym.Cover("a pod exists on the server but not in the cache")
			continue
		}
		s.pods = append(s.pods, pi)
		w.pods = append(w.pods, pod)
		w.apiPods = append(w.apiPods, pod.DeepCopy())
		// the claims of an existing pod exist
		for _, c := range getPersistentVolumeClaims(set, pod) {
			c := c
			w.pvcs = append(w.pvcs, &c)
			w.apiPVCs = append(w.apiPVCs, c.DeepCopy())
		}
	}
	s.names[vSetName+"-other"] = "rev(other)"
	if opts&oFaults != 0 {
		w.faultBudget, w.faultKinds = 1, 1
	}
	if opts&oDeleteGone != 0 {
		w.faultBudget, w.faultKinds, w.faultOnly, w.faultKind = 1, 1, "pod.delete", 2
	}
	if opts&oStatusConflict != 0 {
		w.faultBudget, w.faultKinds, w.faultOnly = 1, 2, "set.updateStatus"
	}
	return s
}

// trace writes the API log as notes (compared with the native run).
func (s *vSnap) trace() {
	w := s.w
	for _, op := range w.ops {
		switch op.verb {
		case "pod.create":
			sym.Note(op.verb, op.name, "rev", w.vVariantName(getPodRevision(op.pod), s.names), "failed", op.failed)
		case "set.updateStatus":
			st := op.status
			sym.Note(op.verb, "replicas", st.Replicas, "ready", st.ReadyReplicas, "current", st.CurrentReplicas, "updated", st.UpdatedReplicas,
				"cur", w.vVariantName(st.CurrentRevision, s.names), "upd", w.vVariantName(st.UpdateRevision, s.names), "gen", st.ObservedGeneration, "failed", op.failed)
		case "rev.list", "rev.get":
			sym.Note(op.verb, "failed", op.failed)
		case "rev.create", "rev.update", "rev.delete", "rev.patch":
			sym.Note(op.verb, w.vVariantName(op.name, s.names), "failed", op.failed)
		default:
			sym.Note(op.verb, op.name, "failed", op.failed)
		}
	}
}

// VH_Step: a = [N, R, K, opts, monitors].
func VH_Step(a []int) {
	N, R, K, opts, mon := a[0], a[1], a[2], a[3], a[4]
	s := vBuildSnap(N, R, K, opts)
	ssc := vNewController(s.w)
	var pods []*v1.Pod
	for _, p := range s.pods {
		pods = append(pods, p.pod)
	}
	var err error
	if opts&oViaSync != 0 {
		// what the reconcile sees is what the real listing and claiming code makes of the caches
		s.w.refresh()
		err = ssc.sync(vNS + "/" + vSetName)
	} else {
		err = ssc.control.UpdateStatefulSet(s.set.DeepCopy(), pods)
	}
	sym.Note("result", err)
	s.trace()
	if mon&mC03 != 0 {
		s.monC03()
	}
	if mon&mC04 != 0 {
		s.monC04()
	}
	if mon&mC05 != 0 {
		s.monC05()
	}
	if mon&mC07 != 0 {
		s.monC07()
	}
	if mon&mC12 != 0 {
		s.monC12(err)
	}
	if mon&mC14 != 0 {
		s.monC14(err)
	}
}

// nextPodWrite returns the next pod create/delete/update after log index i.
func (s *vSnap) nextPodWrite(i int) *vOp {
	for j := i + 1; j < len(s.w.ops); j++ {
		switch s.w.ops[j].verb {
		case "pod.create", "pod.delete", "pod.update", "pod.patch":
			return &s.w.ops[j]
		}
	}
	return nil
}

// victim describes the pod a delete (log index i) targets: a pod of the
// snapshot, or one this reconcile created earlier (Parallel policy).
func (s *vSnap) victim(i int) *vPodInfo {
	name := s.w.ops[i].name
	for j := i - 1; j >= 0; j-- {
		c := s.w.ops[j]
		if c.verb == "pod.create" && c.name == name && !c.failed {
			sym.Cover("a pod created by this reconcile is deleted by it")
			return &vPodInfo{pod: c.pod, ord: vOrd(name), phase: "", ready: string(v1.ConditionFalse), rev: getPodRevision(c.pod)}
		}
	}
	return s.podNamed(name)
}

// isUpdateDelete: a delete of a live (not finished) pod of the desired set.
func (s *vSnap) isUpdateDelete(v *vPodInfo) bool {
	return sym.And(s.desired[v.ord], sym.Not(v.finished()))
}

// C03: every delete has one of the three reasons of the statement.
func (s *vSnap) monC03() {
	for i, op := range s.w.ops {
		if op.verb != "pod.delete" {
			continue
		}
		sym.Cover("a pod delete was issued")
		v := s.victim(i)
		if v == nil {
			sym.Assert(false, "C03", "deleted pod was in the snapshot or created by this reconcile")
			continue
		}
		outside := sym.Not(s.desired[v.ord])
		replaced := false
		if nx := s.nextPodWrite(i); nx != nil && nx.verb == "pod.create" && nx.name == op.name {
			replaced = true
		} else if op.failed {
			replaced = true // the reconcile ended on the failed delete; nothing was removed
		}
		finished := sym.And(v.finished(), replaced)
		outdated := sym.And(s.rolling, int32(v.ord) >= s.part, v.rev != s.upd.Name)
		sym.Assert(sym.Or(outside, finished, outdated), "C03", "every delete has a reason")
		// a live, up-to-date pod of the desired set is never deleted
		sym.Assert(sym.Not(sym.And(s.desired[v.ord], sym.Not(v.finished()), v.rev == s.upd.Name)), "C03", "live up-to-date desired pod never deleted")
		if sym.ConcreteBool(outside) {
			sym.Cover("scale-in delete")
		} else if sym.ConcreteBool(v.finished()) {
			sym.Cover("failed pod replaced")
		} else {
			sym.Cover("update delete")
		}
	}
}

// C04: every create is for a vacant desired ordinal, never a slot, never for a deleting set.
func (s *vSnap) monC04() {
	for i, op := range s.w.ops {
		if op.verb != "pod.create" {
			continue
		}
		sym.Cover("a pod create was issued")
		ord := vOrd(op.name)
		if ord < 0 || ord >= s.n {
			sym.Assert(false, "C04", "created pod has an ordinal inside the universe")
			continue
		}
		sym.Assert(s.desired[ord], "C04", "created ordinal is desired")
		sym.Assert(sym.Not(s.inSlot[ord]), "C04", "created ordinal is not a delete slot")
		sym.Assert(!s.deleting, "C04", "no create for a set being deleted")
		if v := s.podAt(ord); v != nil {
			// occupied in the snapshot: must be a finished pod deleted earlier in this reconcile
			deletedBefore := false
			for j := 0; j < i; j++ {
				if s.w.ops[j].verb == "pod.delete" && s.w.ops[j].name == op.name && !s.w.ops[j].failed {
					deletedBefore = true
				}
			}
			sym.Assert(sym.And(v.finished(), deletedBefore), "C04", "occupied ordinal is only re-created after its finished pod was removed")
			sym.Cover("finished pod re-created")
		} else {
			sym.Cover("vacant ordinal filled")
		}
	}
}

// podWrites lists the ordinals touched by successful or failed pod creates/deletes.
func (s *vSnap) touched() map[int]bool {
	t := map[int]bool{}
	for _, op := range s.w.ops {
		if op.verb == "pod.create" || op.verb == "pod.delete" {
			t[vOrd(op.name)] = true
		}
	}
	return t
}

// C05 (OrderedReady): one ordinal per reconcile, predecessors healthy, scale-in from the top.
func (s *vSnap) monC05() {
	t := s.touched()
	sym.Assert(len(t) <= 1, "C05", "at most one ordinal is created or deleted per reconcile")
	for i, op := range s.w.ops {
		switch op.verb {
		case "pod.create":
			ord := vOrd(op.name)
			for x := 0; x < ord && x < s.n; x++ {
				p := s.podAt(x)
				if p == nil {
					sym.Assert(sym.Not(s.desired[x]), "C05", "create only when every lower desired pod exists")
				} else {
					sym.Assert(sym.Implies(s.desired[x], p.healthy()), "C05", "create only when every lower desired pod is Running, Ready and not terminating")
				}
			}
			sym.Cover("ordered create")
		case "pod.delete":
			v := s.victim(i)
			if v == nil {
				continue
			}
			outside := sym.Not(s.desired[v.ord])
			if sym.ConcreteBool(outside) {
				sym.Cover("ordered scale-in delete")
				for x := 0; x < s.n; x++ {
					p := s.podAt(x)
					if p == nil {
						sym.Assert(sym.Not(s.desired[x]), "C05", "scale-in only when every desired pod exists")
						continue
					}
					sym.Assert(sym.Implies(s.desired[x], p.runningReady()), "C05", "scale-in only when every desired pod is Running and Ready")
					if x > v.ord {
						sym.Assert(s.desired[x], "C05", "scale-in removes the highest-ordinal pod outside the desired set")
					}
				}
			} else if !sym.ConcreteBool(v.finished()) {
				sym.Cover("ordered update delete")
				for x := 0; x < s.n; x++ {
					p := s.podAt(x)
					if p == nil {
						sym.Assert(sym.Not(s.desired[x]), "C05", "update only when every desired pod exists")
						continue
					}
					sym.Assert(s.desired[x], "C05", "update only when nothing is left to scale in")
					sym.Assert(p.healthy(), "C05", "update only when every desired pod is healthy")
				}
			}
		}
	}
}

// C07: partition respected, highest first, created pods carry the right revision, OnDelete never restarts.
func (s *vSnap) monC07() {
	updates := 0
	for i, op := range s.w.ops {
		switch op.verb {
		case "pod.delete":
			v := s.victim(i)
			if v == nil || v.pod == nil {
				continue
			}
			if !sym.ConcreteBool(s.isUpdateDelete(v)) {
				continue
			}
			// a live pod of the desired set is being deleted: only its revision can justify that
			updates++
			sym.Cover("update delete seen")
			sym.Assert(s.rolling, "C07", "OnDelete never deletes a pod because of its revision")
			sym.Assert(int32(v.ord) >= s.part, "C07", "no update delete below the partition")
			sym.Assert(v.rev != s.upd.Name, "C07", "only outdated pods are deleted for update")
			for x := v.ord + 1; x < s.n; x++ {
				p := s.podAt(x)
				if created := s.createdBefore(i, x); created != nil {
					// created earlier in this very reconcile (Parallel): not yet Running/Ready
					sym.Assert(sym.Not(s.desired[x]), "C07", "update delete only when every higher desired pod is updated and healthy")
					continue
				}
				if p == nil {
					sym.Assert(sym.Not(s.desired[x]), "C07", "update delete only when every higher desired pod exists")
					continue
				}
				sym.Assert(sym.Implies(s.desired[x], sym.And(p.rev == s.upd.Name, p.healthy())), "C07", "update delete only when every higher desired pod is updated and healthy")
			}
		case "pod.create":
			ord := vOrd(op.name)
			rev := getPodRevision(op.pod)
			if s.partOK {
				below := int32(ord) < s.part
				sym.Assert(sym.Implies(below, rev == s.cur.Name), "C07", "pods created below the partition carry the current revision")
				sym.Assert(sym.Implies(sym.Not(below), rev == s.upd.Name), "C07", "pods created at or above the partition carry the update revision")
				variant := op.pod.Annotations[vVariantK]
				sym.Assert(sym.Implies(below, variant == vVariantOfRaw(string(s.cur.Data.Raw))), "C07", "pods created below the partition are built from the current template")
				sym.Assert(sym.Implies(sym.Not(below), variant == "B"), "C07", "pods created at or above the partition are built from the update template")
				sym.Cover("create with a partition")
			}
		}
	}
	sym.Assert(updates <= 1, "C07", "at most one pod is deleted for update per reconcile")
}

func (s *vSnap) createdBefore(i, ord int) *vOp {
	for j := 0; j < i; j++ {
		if s.w.ops[j].verb == "pod.create" && vOrd(s.w.ops[j].name) == ord {
			return &s.w.ops[j]
		}
	}
	return nil
}

// C12: every status write tells the truth.
func (s *vSnap) monC12(err error) {
	for _, op := range s.w.ops {
		if op.verb != "set.updateStatus" {
			continue
		}
		st := op.status
		sym.Cover("status written")
		sym.Assert(sym.And(st.ReadyReplicas >= 0, st.ReadyReplicas <= st.Replicas), "C12", "0 <= readyReplicas <= replicas")
		sym.Assert(sym.And(st.CurrentReplicas >= 0, st.CurrentReplicas <= st.Replicas), "C12", "0 <= currentReplicas <= replicas")
		sym.Assert(sym.And(st.UpdatedReplicas >= 0, st.UpdatedReplicas <= st.Replicas), "C12", "0 <= updatedReplicas <= replicas")
		sym.Assert(st.ObservedGeneration == s.set.Generation, "C12", "observedGeneration is the generation reconciled")
		sym.Assert(st.ObservedGeneration >= s.set.Status.ObservedGeneration, "C12", "observedGeneration never decreases")
		// currentRevision changes only when every pod is at the update revision and Ready, and then to updateRevision
		if st.CurrentRevision != s.cur.Name {
			sym.Cover("currentRevision advanced")
			sym.Assert(st.CurrentRevision == st.UpdateRevision, "C12", "currentRevision only ever moves to updateRevision")
			for _, p := range s.pods {
				sym.Assert(sym.And(p.rev == s.upd.Name, p.runningReady()), "C12", "currentRevision moves only when every pod is updated and Ready")
			}
			creates := 0
			for _, o := range s.w.ops {
				if o.verb == "pod.create" {
					creates++
				}
			}
			sym.Assert(creates == 0, "C12", "currentRevision does not move in a reconcile that still creates pods")
		}
		sym.Assert(st.UpdateRevision == s.upd.Name, "C12", "updateRevision names the revision of the template")
	}
	// fixed point: no pod write and (no status write or an equal one) => counters are a census
	podWrites := 0
	for _, op := range s.w.ops {
		switch op.verb {
		case "pod.create", "pod.delete", "pod.update":
			podWrites++
		}
	}
	if podWrites == 0 && err == nil {
		total, ready, cur, upd := int32(0), int32(0), int32(0), int32(0)
		for _, p := range s.pods {
			total++
			ready += int32(sym.B2I(p.runningReady()))
			live := !p.term // created pods always have a phase
			cur += int32(sym.B2I(sym.And(live, p.rev == s.cur.Name)))
			upd += int32(sym.B2I(sym.And(live, p.rev == s.upd.Name)))
		}
		var last *apps.StatefulSetStatus
		for _, op := range s.w.ops {
			if op.verb == "set.updateStatus" && !op.failed {
				last = op.status
			}
		}
		if last != nil {
			sym.Cover("quiescent reconcile with a status write")
			sym.Assert(last.Replicas == total, "C12", "replicas is a census of the pods")
			sym.Assert(last.ReadyReplicas == ready, "C12", "readyReplicas is a census of the ready pods")
			sym.Assert(sym.Or(last.UpdatedReplicas == upd), "C12", "updatedReplicas is a census of the pods at the update revision")
			completed := last.CurrentRevision != s.cur.Name
			if !completed {
				sym.Assert(last.CurrentReplicas == cur, "C12", "currentReplicas is a census of the pods at the current revision")
			} else {
				sym.Assert(last.CurrentReplicas == upd, "C12", "after completion currentReplicas counts the updated pods")
			}
		} else if len(s.w.apiSets) == 1 {
			// nothing at all was written: the status left on the server must already be the census
			// (a status that differs from the census in any counter has to be rewritten)
			st := s.w.apiSets[0].Status
			sym.Cover("quiescent reconcile without a status write")
			sym.Assert(st.Replicas == total, "C12", "a status left unwritten is a census: replicas")
			sym.Assert(st.ReadyReplicas == ready, "C12", "a status left unwritten is a census: readyReplicas")
			sym.Assert(st.UpdatedReplicas == upd, "C12", "a status left unwritten is a census: updatedReplicas")
			sym.Assert(st.CurrentReplicas == cur, "C12", "a status left unwritten is a census: currentReplicas")
		}
	}
}

// C14 (Parallel): every vacancy is filled and every live pod outside the set is deleted in this reconcile.
func (s *vSnap) monC14(err error) {
	if err != nil || s.deleting {
		return
	}
	if !sym.ConcreteBool(s.parallel) {
		return // the property speaks about the Parallel policy only
	}
	created := map[int]bool{}
	deleted := map[int]bool{}
	updates := 0
	for i, op := range s.w.ops {
		switch op.verb {
		case "pod.create":
			created[vOrd(op.name)] = true
		case "pod.delete":
			deleted[vOrd(op.name)] = true
			if v := s.victim(i); v != nil && sym.ConcreteBool(s.isUpdateDelete(v)) {
				updates++
			}
		}
	}
	for x := 0; x < s.n; x++ {
		p := s.podAt(x)
		if p == nil {
			sym.Assert(sym.Implies(s.desired[x], created[x]), "C14", "every vacant desired ordinal is created in the same reconcile")
			sym.Assert(sym.Implies(sym.Not(s.desired[x]), !created[x]), "C14", "nothing is created outside the desired set")
			continue
		}
		vac := sym.And(s.desired[x], p.finished())
		sym.Assert(sym.Implies(vac, created[x]), "C14", "every finished desired pod is replaced in the same reconcile")
		gone := sym.And(sym.Not(s.desired[x]), !p.term)
		sym.Assert(sym.Implies(gone, deleted[x]), "C14", "every live pod outside the desired set is deleted in the same reconcile")
	}
	sym.Assert(updates <= 1, "C14", "rolling update still takes down one pod at a time")
	sym.Cover("parallel reconcile checked")
}

var _ = fmt.Sprint
