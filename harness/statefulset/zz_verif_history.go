//go:build verif

package statefulset

// W-rev: revision history. C13 (history trimming) through `sync`, C08
// (update revision mirrors the template) through getStatefulSetRevisions /
// UpdateStatefulSet.

import (
	"fmt"

	kubeapps "k8s.io/api/apps/v1"
	v1 "k8s.io/api/core/v1"
	metav1 "k8s.io/apimachinery/pkg/apis/meta/v1"
	"k8s.io/apimachinery/pkg/types"

	apps "github.com/pingcap/advanced-statefulset/client/apis/apps/v1"
	"github.com/pingcap/advanced-statefulset/client/apis/apps/v1/helper"
	"github.com/pingcap/advanced-statefulset/client/zz_verif/sym"
)

func init() {
	vHarnesses["VH_History"] = VH_History
	vHarnesses["VH_Revisions"] = VH_Revisions
}

type vHistRev struct {
	rev    *kubeapps.ControllerRevision
	name   string
	owner  int  // 0 this set, 1 another controller, 2 none (orphan)
	labels bool // carries the selector labels
	marker bool // carries the upgrade marker naming this set
	num    int64
	listed bool
	mine   bool // listed and (owned by this set or adoptable orphan)
	live   bool
}

var vVariants = []string{"A", "C", "D", "E", "F"}

// VH_History: a = [M extra revisions, P pods, opts]. opts bit0: owners vary, bit1: marker varies.
func VH_History(a []int) {
	M, P, opts := a[0], a[1], a[2]
	w := &vWorld{}
	// replicas <= P: pods at ordinals >= replicas are condemned but still name their revision
	set := vNewSet(int32(sym.Pick("replicas", P+1)))
	set.Spec.PodManagementPolicy = apps.ParallelPodManagement
	lim := sym.Int32("historyLimit")
	sym.Assume(lim >= 0)
	set.Spec.RevisionHistoryLimit = &lim
	own := vOwnerRef(controllerKind.Kind, vSetName, vSetUID)

	var revs []*vHistRev
	// the update revision (template B) is stored, owned, with an arbitrary number
	upd := vRevision(set, "B", 0)
	upd.Revision = sym.Int64("rev.num")
	sym.Assume(sym.And(upd.Revision >= 0, upd.Revision < 1<<40))
	upd.Name = vSetName + "-upd"
	upd.OwnerReferences = own
	revs = append(revs, &vHistRev{rev: upd, name: upd.Name, owner: 0, labels: true, num: upd.Revision})
	for i := 0; i < M; i++ {
		x := vRevision(set, vVariants[i], 0)
		x.Revision = sym.Int64("rev.num")
		sym.Assume(sym.And(x.Revision >= 0, x.Revision < 1<<40))
		// unless opts bit2 is set the update revision is the newest one of the set (no rollback)
		x.Name = fmt.Sprintf("%s-r%d", vSetName, i)
		x.UID = types.UID(fmt.Sprintf("uid-rev-%d", i))
		h := &vHistRev{rev: x, name: x.Name, labels: true, num: x.Revision}
		if opts&1 != 0 {
			h.owner = sym.Pick("rev.owner", 3)
		}
		switch h.owner {
		case 0:
			x.OwnerReferences = own
		case 1:
			x.OwnerReferences = vOwnerRef("StatefulSet", "other", "uid-other")
		case 2:
			x.OwnerReferences = nil
		}
		if opts&2 != 0 {
			switch sym.Pick("rev.shape", 3) {
			case 1: // adopted after an upgrade: selector labels and the marker
				x.Labels[helper.UpgradeToAdvancedStatefulSetAnn] = vSetName
				h.marker = true
			case 2: // fresh from the upgrade helper: marker only
				hash := x.Labels["controller.kubernetes.io/hash"]
				x.Labels = map[string]string{helper.UpgradeToAdvancedStatefulSetAnn: vSetName, "controller.kubernetes.io/hash": hash}
				h.marker, h.labels = true, false
			}
		}
		revs = append(revs, h)
	}
	if opts&4 == 0 {
		for _, h := range revs[1:] {
			sym.Assume(h.num < upd.Revision)
		}
	} else {
		// a rollback: the stored revision that equals the template may be older than the others
		// (the controller then re-uses and renumbers it)
		sym.Cover("the revision of the template may be an old one")
	}
	for _, h := range revs {
		w.apiRevs = append(w.apiRevs, h.rev)
		h.listed = h.labels || h.marker
		h.mine = h.listed && h.owner != 1
	}
	// current revision: the update revision or one of the set's own older ones
	cur := revs[0]
	if M > 0 {
		c := sym.Pick("current", M+1)
		if c > 0 {
			sym.Assume(revs[c].mine)
			cur = revs[c]
		}
	}
	set.Status.CurrentRevision = cur.name
	set.Status.UpdateRevision = upd.Name
	cur.live = true
	revs[0].live = true
	// pods: healthy, owned, canonical; each names a revision of the set
	for i := 0; i < P; i++ {
		pod := newStatefulSetPod(set, i)
		pod.UID = types.UID(fmt.Sprintf("uid-snap-pod-%d", i))
		pod.Status.Phase = v1.PodRunning
		pod.Status.Conditions = []v1.PodCondition{{Type: v1.PodReady, Status: v1.ConditionTrue}}
		r := revs[sym.Pick("pod.rev", len(revs))]
		sym.Assume(r.mine)
		setPodRevision(pod, r.name)
		r.live = true
		// a pod that is terminating but still present keeps its revision live
		if sym.Pick("pod.terminating", 2) == 1 {
			pod.DeletionTimestamp = &metav1.Time{}
		}
		w.pods = append(w.pods, pod)
		w.apiPods = append(w.apiPods, pod.DeepCopy())
		for _, c := range getPersistentVolumeClaims(set, pod) {
			c := c
			w.pvcs = append(w.pvcs, &c)
		}
	}
	// OnDelete: pods at older revisions stay, so their revisions stay live
	set.Spec.UpdateStrategy = apps.StatefulSetUpdateStrategy{Type: apps.OnDeleteStatefulSetStrategyType}
	w.sets = []*apps.StatefulSet{set}
	w.apiSets = []*apps.StatefulSet{set.DeepCopy()}
	ssc := vNewController(w)
	err := ssc.sync(vNS + "/" + vSetName)

	names := map[string]string{}
	for _, h := range revs {
		names[h.name] = h.name
	}
	for _, op := range w.ops {
		switch op.verb {
		case "rev.list", "rev.get":
			sym.Note(op.verb, "failed", op.failed)
		case "set.updateStatus":
			sym.Note(op.verb, "failed", op.failed)
		default:
			sym.Note(op.verb, op.name, "failed", op.failed)
		}
	}
	sym.Note("result", err == nil)

	// ---- C13 monitor
	unused := 0
	for _, h := range revs {
		if h.mine && !h.live {
			unused++
		}
	}
	deleted := map[string]int{}
	ndel := 0
	for _, op := range w.ops {
		if op.verb != "rev.delete" {
			continue
		}
		sym.Cover("a revision delete was issued")
		deleted[op.name]++
		ndel++
		var h *vHistRev
		for _, x := range revs {
			if x.name == op.name {
				h = x
			}
		}
		if h == nil {
			sym.Assert(false, "C13", "deleted revision was listed")
			continue
		}
		if h.owner == 1 {
			sym.Disc("revision-owner=foreign")
		} else if h.labels && h.marker {
			sym.Disc("revision-listed-twice")
		}
		sym.Assert(h.owner != 1, "C13", "only revisions of this set are deleted")
		sym.Assert(!h.live, "C13", "live revisions are never deleted")
		sym.Assert(int32(unused) > lim, "C13", "history is trimmed only beyond the limit")
		sym.Assert(deleted[op.name] == 1, "C13", "no revision is deleted twice")
		// oldest first: every kept unused revision of the set sorts after the deleted one
		for _, u := range revs {
			if u == h || !u.mine || u.live {
				continue
			}
			kept := true
			for _, o := range w.ops {
				if o.verb == "rev.delete" && o.name == u.name {
					kept = false
				}
			}
			if kept {
				older := sym.Or(h.num < u.num, sym.And(h.num == u.num, h.name < u.name))
				sym.Assert(older, "C13", "the oldest unused revisions go first")
			}
		}
		sym.Disc("")
	}
	if err == nil {
		sym.Cover("reconcile succeeded")
		distinct := len(deleted)
		remain := unused - distinct
		if remain < 0 {
			remain = 0
		}
		sym.Assert(int32(remain) <= lim, "C13", "at most revisionHistoryLimit unused revisions remain")
		// each revision counted once: exactly max(0, unused-limit) deletes
		over := sym.Ite32(int32(unused) > lim, int32(unused)-lim, 0)
		sym.Assert(int32(ndel) == over, "C13", "exactly the surplus is deleted")
	} else {
		sym.Disc("reconcile-error")
		sym.Assert(false, "C13", "history maintenance does not fail without API errors")
		sym.Disc("")
	}
}

// VH_Revisions (C08): a = [M stored revisions, opts]. opts bit0: engineered
// name collision possible; bit1: a second reconcile after a non-template edit.
func VH_Revisions(a []int) {
	M, opts := a[0], a[1]
	w := &vWorld{}
	set := vNewSet(0)
	tmpl := []string{"A", "B", "C"}[sym.Pick("template", 3)]
	set.Spec.Template.Annotations[vVariantK] = tmpl
	if opts&4 != 0 {
		// a small history limit: trimming must never remove the revision the status names
		lim := int32(sym.Pick("historyLimit", 2))
		set.Spec.RevisionHistoryLimit = &lim
	}
	switch sym.Pick("collisionCount", 3) {
	case 1:
		cc := int32(0)
		set.Status.CollisionCount = &cc
	case 2:
		cc := int32(sym.IntIn("collisions", 1, 2))
		set.Status.CollisionCount = &cc
	}
	type stored struct {
		rev     *kubeapps.ControllerRevision
		variant string
		num     int64
	}
	var st []*stored
	for i := 0; i < M; i++ {
		v := []string{"A", "B", "C"}[sym.Pick("rev.variant", 3)]
		n := sym.Int64("rev.num")
		sym.Assume(sym.And(n >= 1, n < 1<<40))
		if opts&16 == 0 {
			for _, o := range st {
				sym.Assume(o.num != n)
			}
		} else {
			// revisions adopted from elsewhere (or written by a racing controller) may share a
			// number; the history is then ordered by number, creation time (equal here) and name
			for _, o := range st {
				if sym.ConcreteBool(o.num == n) {
					sym.Cover("two stored revisions share a number")
				}
			}
		}
		x := vRevision(set, v, n)
		x.UID = types.UID(fmt.Sprintf("uid-rev-%d", i))
		if opts&16 != 0 {
			// distinct creation times make the order among equal numbers independent of the names
			// (names are hashes of codec output, which differ between the model and the real codec)
			x.CreationTimestamp = metav1.Unix(int64(1700000000+i), 0)
		}
		// two stored revisions with the same data would have the same name
		dup := false
		for _, o := range st {
			if o.variant == v {
				dup = true
			}
		}
		if dup {
			x.Name = fmt.Sprintf("%s-dup%d", x.Name, i)
		}
		st = append(st, &stored{x, v, n})
		w.apiRevs = append(w.apiRevs, x)
	}
	// an engineered collision: a revision of *different* data already holds the
	// name the controller is going to compute for the new revision
	collide := false
	if opts&1 != 0 && sym.Pick("collision", 2) == 1 {
		have := false
		for _, o := range st {
			if o.variant == tmpl {
				have = true
			}
		}
		sym.Assume(!have)
		cc := int32(0)
		if set.Status.CollisionCount != nil {
			cc = *set.Status.CollisionCount
		}
		probe := vRevision(set, tmpl, 1)
		name := controllerRevisionName(set.Name, hashControllerRevision(probe, &cc))
		squat := vRevision(set, "Z", 0)
		squat.Name = name
		squat.UID = "uid-rev-squatter"
		squat.Labels = map[string]string{"app": "somebody-else"}
		if sym.Pick("collision.hash", 2) == 1 {
			// a true hash collision: different data, same hash (and so the same hash label)
			squat.Labels["controller.kubernetes.io/hash"] = hashControllerRevision(probe, &cc)
			sym.Cover("colliding revision carries the same hash label")
		}
		squat.OwnerReferences = nil
		w.apiRevs = append(w.apiRevs, squat)
		collide = true
		sym.Cover("engineered name collision")
	}
	// the stored status may be stale (a failed status write, a crash between the
	// revision write and the status write): it names any stored revision or none
	if opts&32 != 0 {
		if k := sym.Pick("status.updateRevision", len(st)+1); k > 0 {
			set.Status.UpdateRevision = st[k-1].rev.Name
			sym.Cover("stored status names a stored revision as the update revision")
		}
	}
	w.sets = []*apps.StatefulSet{set}
	w.apiSets = []*apps.StatefulSet{set.DeepCopy()}
	if opts&8 != 0 {
		// the write that renumbers a re-used revision may be rejected once with a conflict
		w.faultBudget, w.faultKind, w.faultOnly = 1, 1, "rev.update"
	}
	ssc := vNewController(w)
	err := ssc.control.UpdateStatefulSet(set.DeepCopy(), nil)

	label := func(name string) string {
		for _, r := range w.apiRevs {
			if r.Name == name {
				return "rev(" + vVariantOfRaw(string(r.Data.Raw)) + ")"
			}
		}
		return "rev?"
	}
	trace := func(from int) {
		for _, op := range w.ops[from:] {
			switch op.verb {
			case "rev.create", "rev.update":
				sym.Note(op.verb, "rev("+vVariantOfRaw(string(op.rev.Data.Raw))+")", "num", op.rev.Revision, "failed", op.failed)
			case "set.updateStatus":
				sym.Note(op.verb, "upd", label(op.status.UpdateRevision), "failed", op.failed)
			default:
				sym.Note(op.verb, "failed", op.failed)
			}
		}
	}
	trace(0)
	sym.Note("result", err == nil)
	sym.Assert(err == nil, "C08", "reconcile succeeds without API errors")

	// the oracle: which stored revision equals the template, and is it the newest?
	var equal *stored
	var newest *stored
	after := func(a, b *stored) bool { // a sorts after b in the history
		if sym.ConcreteBool(a.num != b.num) {
			return sym.ConcreteBool(a.num > b.num)
		}
		if !a.rev.CreationTimestamp.Equal(&b.rev.CreationTimestamp) {
			return b.rev.CreationTimestamp.Before(&a.rev.CreationTimestamp)
		}
		return a.rev.Name > b.rev.Name
	}
	for _, o := range st {
		if o.variant == tmpl && (equal == nil || after(o, equal)) {
			equal = o
		}
		if newest == nil || after(o, newest) {
			newest = o
		}
	}
	creates, updates, others := 0, 0, 0
	var lastStatus *apps.StatefulSetStatus
	squatWritten := false
	for _, op := range w.ops {
		switch op.verb {
		case "rev.create":
			creates++
			if !op.failed {
				sym.Assert(vVariantOfRaw(string(op.rev.Data.Raw)) == tmpl, "C08", "a created revision records the current template")
				if newest != nil {
					sym.Assert(op.rev.Revision > newest.num, "C08", "a new revision is numbered above all others")
				}
			}
		case "rev.update":
			if !op.failed {
				updates++
			}
			if equal != nil {
				sym.Assert(op.name == equal.rev.Name, "C08", "a rollback re-uses the newest equal revision")
				sym.Assert(op.rev.Revision > newest.num, "C08", "a re-used revision is renumbered above all others")
				sym.Assert(vVariantOfRaw(string(op.rev.Data.Raw)) == tmpl, "C08", "renumbering does not change the recorded data")
			}
		case "rev.delete", "rev.patch":
			others++
		case "set.updateStatus":
			if !op.failed {
				lastStatus = op.status
			}
		}
		if collide && op.write && op.verb != "rev.create" && op.rev != nil && op.rev.UID == "uid-rev-squatter" {
			squatWritten = true
		}
	}
	switch {
	case equal != nil && equal == newest:
		sym.Cover("template unchanged")
		sym.Assert(creates == 0 && updates == 0, "C08", "an unchanged template writes no revision")
	case equal != nil:
		sym.Cover("rollback to an older revision")
		sym.Assert(creates == 0 && updates == 1, "C08", "a rollback renumbers the old revision instead of creating one")
	default:
		sym.Cover("new template")
		sym.Assert(updates == 0 && creates >= 1, "C08", "a new template creates a revision")
	}
	if opts&4 == 0 {
		sym.Assert(others == 0, "C08", "no revision is deleted or patched here")
	}
	if err == nil && equal != nil && equal != newest {
		// the state a successful rollback leaves on the server, however many attempts it took
		for _, r := range w.apiRevs {
			if r.Name != equal.rev.Name {
				continue
			}
			for _, o := range w.apiRevs {
				if o.Name != r.Name {
					sym.Assert(r.Revision > o.Revision, "C08", "after a rollback the re-used revision carries the highest number")
				}
			}
		}
	}
	if collide {
		sym.Assert(!squatWritten, "C08", "a colliding revision of different data is never overwritten")
		for _, r := range w.apiRevs {
			if r.UID == "uid-rev-squatter" {
				sym.Assert(vVariantOfRaw(string(r.Data.Raw)) == "Z", "C08", "the colliding revision keeps its data")
			}
		}
		sym.Assert(creates >= 2, "C08", "a collision is retried under a new name")
	}
	if err == nil && lastStatus != nil {
		found := false
		for _, r := range w.apiRevs {
			if r.Name == lastStatus.UpdateRevision {
				found = true
				sym.Assert(vVariantOfRaw(string(r.Data.Raw)) == tmpl, "C08", "status.updateRevision names a stored revision of the current template")
			}
		}
		sym.Assert(found, "C08", "status.updateRevision names a stored revision")
		if collide {
			before := int32(0)
			if set.Status.CollisionCount != nil {
				before = *set.Status.CollisionCount
			}
			sym.Assert(lastStatus.CollisionCount != nil && *lastStatus.CollisionCount > before, "C08", "the collision count grows on a collision")
		}
	}
	if opts&2 == 0 || err != nil || lastStatus == nil {
		return
	}
	// ---- second reconcile after an edit that does not touch the template
	cached := w.apiSets[0].DeepCopy()
	switch sym.Pick("edit", 5) {
	case 0:
		r := int32(0)
		cached.Spec.Replicas = &r
	case 1:
		if cached.Annotations == nil {
			cached.Annotations = map[string]string{}
		}
		cached.Annotations[helper.DeleteSlotsAnn] = "[0]"
	case 2:
		if cached.Annotations == nil {
			cached.Annotations = map[string]string{}
		}
		cached.Annotations[helper.PausedReconcileAnn] = "false"
	case 3:
		cached.Labels = map[string]string{"team": "x"}
	case 4:
		cached.Annotations = map[string]string{"note": "y"}
	}
	cached.Generation++
	w.apiSets[0] = cached.DeepCopy()
	w.sets = []*apps.StatefulSet{cached}
	mark := len(w.ops)
	err2 := ssc.control.UpdateStatefulSet(cached.DeepCopy(), nil)
	trace(mark)
	sym.Note("result2", err2 == nil)
	sym.Assert(err2 == nil, "C08", "second reconcile succeeds")
	for _, op := range w.ops[mark:] {
		switch op.verb {
		case "rev.create", "rev.update", "rev.delete", "rev.patch":
			sym.Assert(false, "C08", "a non-template edit writes no revision")
		case "set.updateStatus":
			sym.Assert(op.status.UpdateRevision == lastStatus.UpdateRevision, "C08", "a non-template edit keeps the update revision")
		}
	}
	sym.Cover("non-template edit reconciled")
}
