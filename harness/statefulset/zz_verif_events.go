//go:build verif

package statefulset

// W-evt (C16): pod / set event handlers and one worker step over a fake queue.

import (
	"fmt"
	"sort"
	"strings"

	v1 "k8s.io/api/core/v1"
	metav1 "k8s.io/apimachinery/pkg/apis/meta/v1"
	"k8s.io/apimachinery/pkg/types"
	"k8s.io/client-go/tools/cache"
	"k8s.io/client-go/util/workqueue"

	apps "github.com/pingcap/advanced-statefulset/client/apis/apps/v1"
	"github.com/pingcap/advanced-statefulset/client/apis/apps/v1/helper"
	"github.com/pingcap/advanced-statefulset/client/zz_verif/sym"
)

func init() {
	vHarnesses["VH_Events"] = VH_Events
	vHarnesses["VH_Worker"] = VH_Worker
}

type vQueue struct {
	workqueue.RateLimitingInterface
	log   []string
	items []interface{}
}

func (q *vQueue) Add(item interface{}) {
	q.log = append(q.log, fmt.Sprintf("add %v", item))
	q.items = append(q.items, item)
}
func (q *vQueue) AddRateLimited(item interface{}) {
	q.log = append(q.log, fmt.Sprintf("addRateLimited %v", item))
}

// NumRequeues: how often the key has failed before is arbitrary.
func (q *vQueue) NumRequeues(item interface{}) int { return sym.IntIn("requeues", 0, 40) }
func (q *vQueue) Forget(item interface{})          { q.log = append(q.log, fmt.Sprintf("forget %v", item)) }
func (q *vQueue) Done(item interface{})            { q.log = append(q.log, fmt.Sprintf("done %v", item)) }
func (q *vQueue) ShutDown()                        {}
func (q *vQueue) Get() (interface{}, bool) {
	if len(q.items) == 0 {
		return nil, true
	}
	it := q.items[0]
	q.items = q.items[1:]
	q.log = append(q.log, fmt.Sprintf("get %v", it))
	return it, false
}

func (q *vQueue) added() []string {
	var out []string
	for _, l := range q.log {
		if strings.HasPrefix(l, "add ") {
			out = append(out, strings.TrimPrefix(l, "add "))
		}
	}
	sort.Strings(out)
	return out
}

type vEvtPod struct {
	pod    *v1.Pod
	owner  int // 0 none, 1 set "web-1" (right UID), 2 set "web-1" with a stale UID, 3 another kind, 4 set "db", 5 set "web-1" referenced through another served API version
	labels int // 0 none, 1 matches web-1, 2 matches db, 3 matches both
	term   bool
}

func vEvtBuildPod(tag string) *vEvtPod {
	e := &vEvtPod{}
	pod := &v1.Pod{ObjectMeta: metav1.ObjectMeta{Name: "web-1-0", Namespace: vNS, UID: "uid-pod", ResourceVersion: "1"}}
	e.owner = sym.Pick(tag+".owner", 6)
	switch e.owner {
	case 1:
		pod.OwnerReferences = vOwnerRef(controllerKind.Kind, vSetName, vSetUID)
	case 2:
		pod.OwnerReferences = vOwnerRef(controllerKind.Kind, vSetName, "uid-set-old")
	case 3:
		pod.OwnerReferences = vOwnerRef("ReplicaSet", vSetName, vSetUID)
	case 4:
		pod.OwnerReferences = vOwnerRef(controllerKind.Kind, "db", "uid-db")
	case 5:
		// the CRD serves v1alpha1 as well: same object, same UID, other apiVersion in the reference
		pod.OwnerReferences = vOwnerRef(controllerKind.Kind, vSetName, vSetUID)
		pod.OwnerReferences[0].APIVersion = controllerKind.Group + "/v1alpha1"
	}
	e.labels = sym.Pick(tag+".labels", 4)
	switch e.labels {
	case 1:
		pod.Labels = map[string]string{"app": "web"}
	case 2:
		pod.Labels = map[string]string{"tier": "db"}
	case 3:
		pod.Labels = map[string]string{"app": "web", "tier": "db"}
	}
	if sym.Pick(tag+".terminating", 2) == 1 {
		pod.DeletionTimestamp = &metav1.Time{}
		e.term = true
	}
	e.pod = pod
	return e
}

// ownerKeys: the set a controller reference resolves to.
func (e *vEvtPod) ownerKeys() []string {
	switch e.owner {
	case 1, 5:
		return []string{vNS + "/" + vSetName}
	case 4:
		return []string{vNS + "/db"}
	}
	return nil
}

// matchKeys: every set whose selector matches the labels.
func (e *vEvtPod) matchKeys() []string {
	var out []string
	if e.labels == 2 || e.labels == 3 {
		out = append(out, vNS+"/db")
	}
	if e.labels == 1 || e.labels == 3 {
		out = append(out, vNS+"/"+vSetName)
	}
	sort.Strings(out)
	return out
}

func vUnion(a, b []string) []string {
	m := map[string]bool{}
	for _, x := range a {
		m[x] = true
	}
	for _, x := range b {
		m[x] = true
	}
	var out []string
	for x := range m {
		out = append(out, x)
	}
	sort.Strings(out)
	return out
}

func vDedup(a []string) []string { return vUnion(a, nil) }

// VH_Events: a = [opts]; bit0: a third set with an invalid selector lives in the same namespace.
// The controller is built by the real constructor and events are delivered through the
// handlers it registered with the (recording) informers.
func VH_Events(a []int) {
	opts := a[0]
	w := &vWorld{}
	s1 := vNewSet(1)
	s2 := vNewSet(1)
	s2.Name, s2.UID = "db", "uid-db"
	s2.Spec.Selector = &metav1.LabelSelector{MatchLabels: map[string]string{"tier": "db"}}
	w.sets = []*apps.StatefulSet{s1, s2}
	if opts&1 != 0 {
		s3 := vNewSet(1)
		s3.Name, s3.UID = "broken", "uid-broken"
		s3.Spec.Selector = &metav1.LabelSelector{MatchExpressions: []metav1.LabelSelectorRequirement{{Key: "app", Operator: "Bogus"}}}
		w.sets = append(w.sets, s3)
		sym.Disc("invalid-selector-in-namespace")
	}
	neg := opts&2 != 0
	if neg {
		// a set whose selector is a negative expression matches pods that lack the key
		s4 := vNewSet(1)
		s4.Name, s4.UID = "neg", "uid-neg"
		s4.Spec.Selector = &metav1.LabelSelector{MatchExpressions: []metav1.LabelSelectorRequirement{{Key: "app", Operator: metav1.LabelSelectorOpNotIn, Values: []string{"other"}}}}
		w.sets = append(w.sets, s4)
		sym.Cover("a set with a NotIn selector lives in the namespace")
	}
	// the controller as its constructor wires it; events go through the registered handlers
	x := vNewWiredController(w)
	q := x.q
	sym.Assert(len(x.pods.handlers) == 1 && len(x.sets.handlers) == 1, "C16", "one handler each is registered for pods and for sets")
	if len(x.pods.handlers) != 1 || len(x.sets.handlers) != 1 {
		return
	}
	podH, setH := x.pods.handlers[0], x.sets.handlers[0]

	var want []string
	vWantsMatch := false // the event falls back to selector matching (unowned pod)
	kind := sym.Pick("event", 8)
	switch kind {
	case 0: // add
		p := vEvtBuildPod("new")
		sym.Note("add", p.owner, p.labels, p.term)
		podH.OnAdd(p.pod, sym.Pick("initialList", 2) == 1)
		switch {
		case p.term: // observed while already terminating: a deletion
			want = p.ownerKeys()
		case p.owner != 0:
			want = p.ownerKeys()
		default:
			want = p.matchKeys()
			vWantsMatch = p.labels != 0 // the lister never matches a pod without labels (upstream contract)
		}
	case 1: // update
		o := vEvtBuildPod("old")
		n := vEvtBuildPod("new")
		same := sym.Pick("sameRV", 2) == 1
		if !same {
			n.pod.ResourceVersion = "2"
		}
		sym.Note("update", o.owner, o.labels, n.owner, n.labels, same)
		podH.OnUpdate(o.pod, n.pod)
		if !same {
			ownerChanged := o.owner != n.owner
			if ownerChanged {
				want = o.ownerKeys()
			}
			if n.owner != 0 {
				want = vUnion(want, n.ownerKeys())
			} else if ownerChanged || o.labels != n.labels {
				want = vUnion(want, n.matchKeys())
				vWantsMatch = n.labels != 0
			}
		}
	case 2: // delete
		p := vEvtBuildPod("old")
		sym.Note("delete", p.owner, p.labels)
		podH.OnDelete(p.pod)
		want = p.ownerKeys()
	case 3: // deletion learned late: tombstone holding the pod
		p := vEvtBuildPod("old")
		sym.Note("tombstone", p.owner, p.labels)
		podH.OnDelete(cache.DeletedFinalStateUnknown{Key: vNS + "/web-1-0", Obj: p.pod})
		want = p.ownerKeys()
	case 4: // tombstone holding something else, and a non-pod object
		podH.OnDelete(cache.DeletedFinalStateUnknown{Key: "x", Obj: s1})
		podH.OnDelete(s1)
		sym.Note("junk")
	case 5: // a set appears, a set disappears
		setH.OnAdd(s1, sym.Pick("initialList", 2) == 1)
		setH.OnDelete(s2)
		sym.Note("sets")
		want = []string{vNS + "/" + vSetName, vNS + "/db"}
	case 6: // deletion of a set learned through a tombstone
		setH.OnDelete(cache.DeletedFinalStateUnknown{Key: vNS + "/" + vSetName, Obj: s1})
		sym.Note("set tombstone")
		want = []string{vNS + "/" + vSetName}
	case 7: // any change to a set: spec, status, annotations only (delete-slots, pause flag raised or lowered), or a resync
		old := s1.DeepCopy()
		cur := s1.DeepCopy()
		old.ResourceVersion, cur.ResourceVersion = "1", "1"
		changed := false
		if sym.Pick("specChanged", 2) == 1 {
			r := int32(3)
			cur.Spec.Replicas = &r
			cur.Generation = old.Generation + 1
			changed = true
		}
		if sym.Pick("statusChanged", 2) == 1 {
			cur.Status.Replicas = old.Status.Replicas + 1
			changed = true
		}
		switch sym.Pick("slotsChanged", 3) {
		case 1:
			cur.Annotations = map[string]string{helper.DeleteSlotsAnn: "[0]"}
			changed = true
		case 2:
			old.Annotations = map[string]string{helper.DeleteSlotsAnn: "[0]"}
			changed = true
		}
		switch sym.Pick("pause", 4) {
		case 1: // paused now
			if cur.Annotations == nil {
				cur.Annotations = map[string]string{}
			}
			cur.Annotations[helper.PausedReconcileAnn] = "true"
			changed = true
		case 2: // resumed now
			if old.Annotations == nil {
				old.Annotations = map[string]string{}
			}
			old.Annotations[helper.PausedReconcileAnn] = "true"
			changed = true
		case 3: // paused before and after
			for _, s := range []*apps.StatefulSet{old, cur} {
				if s.Annotations == nil {
					s.Annotations = map[string]string{}
				}
				s.Annotations[helper.PausedReconcileAnn] = "true"
			}
		}
		if sym.Pick("labelsChanged", 2) == 1 {
			cur.Labels = map[string]string{"team": "x"}
			changed = true
		}
		if changed {
			cur.ResourceVersion = "2"
		}
		sym.Note("set update", "changed", changed)
		setH.OnUpdate(old, cur)
		if changed {
			sym.Cover("a set changed")
			want = []string{vNS + "/" + vSetName}
		} else {
			// a resync delivers identical objects: enqueueing is allowed, not required
			sym.Cover("set resync")
			want = vDedup(q.added())
			sym.Assert(len(want) <= 1 && (len(want) == 0 || want[0] == vNS+"/"+vSetName), "C16", "exactly the sets the event concerns are enqueued")
		}
	}
	if neg && vWantsMatch {
		want = append(want, vNS+"/neg")
	}
	want = vDedup(want)
	got := vDedup(q.added())
	sym.Note("enqueued", strings.Join(got, ","))
	sym.Assert(strings.Join(got, ",") == strings.Join(want, ","), "C16", "exactly the sets the event concerns are enqueued")
	for _, l := range q.log {
		sym.Assert(strings.HasPrefix(l, "add "), "C16", "event handlers only add keys")
	}
	sym.Cover(fmt.Sprintf("event kind %d", kind))
}

// VH_Worker: one worker step; the reconcile fails or succeeds.
func VH_Worker(a []int) {
	w := &vWorld{faultBudget: 1, faultKinds: 6}
	set := vNewSet(int32(sym.IntIn("r", 0, 1)))
	if sym.Pick("paused", 2) == 1 {
		set.Annotations = map[string]string{helper.PausedReconcileAnn: "true"}
	}
	gone := sym.Pick("gone", 2) == 1
	if !gone {
		w.sets = []*apps.StatefulSet{set}
		w.apiSets = []*apps.StatefulSet{set.DeepCopy()}
	}
	ssc := vNewController(w)
	q := &vQueue{}
	ssc.queue = q
	key := vNS + "/" + vSetName
	q.items = []interface{}{key}
	more := ssc.processNextWorkItem()
	// a call failed and the same write was not retried successfully later in this reconcile
	failedCall := false
	for i, op := range w.ops {
		if !op.failed || op.applied {
			continue
		}
		retried := false
		for _, later := range w.ops[i+1:] {
			if later.verb == op.verb && later.name == op.name && !later.failed {
				retried = true
			}
		}
		if !retried {
			failedCall = true
		}
	}
	sym.Note("worker", strings.Join(q.log, ";"), "fault", strings.Join(w.faulted, ","))
	sym.Assert(more, "C16", "the worker keeps going")
	n := len(q.log)
	sym.Assert(n >= 2 && q.log[n-1] == "done "+key, "C16", "the key is always marked done")
	requeued, forgot := false, false
	for _, l := range q.log {
		if l == "addRateLimited "+key {
			requeued = true
		}
		if l == "forget "+key {
			forgot = true
		}
	}
	sym.Assert(requeued != forgot, "C16", "a reconcile is either put back with backoff or forgotten")
	anyFailed := false
	for _, op := range w.ops {
		if op.failed {
			anyFailed = true
		}
	}
	if failedCall {
		sym.Cover("reconcile with a failing API call")
		sym.Assert(requeued, "C16", "a failed reconcile is put back with backoff")
	} else if anyFailed {
		sym.Cover("reconcile with a failure that was retried or hid an applied write")
	} else {
		sym.Cover("reconcile without failures")
		sym.Assert(forgot, "C16", "a successful reconcile clears its backoff")
	}
	// an empty queue that is shutting down stops the worker
	sym.Assert(!ssc.processNextWorkItem(), "C16", "the worker stops when the queue shuts down")
}

var _ = types.UID("")
