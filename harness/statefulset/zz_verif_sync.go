//go:build verif

package statefulset

// One reconcile through the controller's per-key entry point `sync`, with
// monitors for C10 (ownership), C11 (paused / deleted sets) and C15 (no panic).

import (
	"fmt"
	"strings"

	kubeapps "k8s.io/api/apps/v1"
	v1 "k8s.io/api/core/v1"
	metav1 "k8s.io/apimachinery/pkg/apis/meta/v1"
	"k8s.io/apimachinery/pkg/types"

	apps "github.com/pingcap/advanced-statefulset/client/apis/apps/v1"
	"github.com/pingcap/advanced-statefulset/client/apis/apps/v1/helper"
	"github.com/pingcap/advanced-statefulset/client/zz_verif/sym"
)

func init() {
	vHarnesses["VH_Sync"] = VH_Sync
}

// sync option bits
const (
	yOwnerDims      = 1 << iota // pods vary in owner, label match, name shape
	yPause                      // pause annotation symbolic
	yDeleting                   // deletion timestamp symbolic
	yStaleCache                 // the API copy of the set may differ from the cached one
	yRevDims                    // extra revisions with owner / label / marker variations
	yUndefaulted                // spec as admitted by the CRD, not defaulted (C15)
	yHealthDims                 // pods vary in health and revision (else healthy, update revision)
	yOrphanRevs                 // the set's own revisions may be orphans (adoption path)
	yStatusConflict             // the status write may hit a conflict and be retried
	yCacheLosesSet              // the set may leave the informer cache while the reconcile is in flight
	ySelectorShapes             // the selector may be empty ({} matches every pod) or a DoesNotExist expression (C15)
	ySelectorExpr               // the selector has matchLabels and a NotIn expression; a pod may satisfy the labels only
)

// sync monitor bits
const (
	nC10 = 1 << iota
	nC11
	nC15
)

type vSyncPod struct {
	pod     *v1.Pod
	ord     int
	owner   int // 0 this set, 1 same name other UID, 2 other controller kind, 3 none
	match   bool
	shape   int // 0 canonical, 1 other parent, 2 no ordinal
	term    bool
	member  bool // name is <set>-<ordinal>
	claimed bool // expected to be treated as part of the set
}

type vSyncRev struct {
	rev    *kubeapps.ControllerRevision
	owner  int // 0 this set, 1 other owner, 2 none
	labels bool
	marker bool
}

type vSyncWorld struct {
	w      *vWorld
	set    *apps.StatefulSet
	upd    *kubeapps.ControllerRevision
	pods   []*vSyncPod
	revs   []*vSyncRev
	paused bool
	delet  bool
	apiSet int // 0 same, 1 other UID, 2 being deleted, 3 gone
	n      int
}

func vOwnerRef(kind, name string, uid types.UID) []metav1.OwnerReference {
	t := true
	return []metav1.OwnerReference{{APIVersion: controllerKind.GroupVersion().String(), Kind: kind, Name: name, UID: uid, Controller: &t, BlockOwnerDeletion: &t}}
}

func vBuildSync(N, R, K, opts int) *vSyncWorld {
	sw := &vSyncWorld{w: &vWorld{}, n: R + K + 1}
	w := sw.w
	r := int32(sym.IntIn("r", 0, R))
	set := vNewSet(r)
	k := sym.Pick("k", K+1)
	var slots []int32
	for i := 0; i < k; i++ {
		slots = append(slots, int32(sym.IntIn("slot", 0, sw.n-1)))
	}
	ann := map[string]string{}
	if k > 0 {
		ann[helper.DeleteSlotsAnn] = sym.SlotsJSON(slots)
	}
	if opts&yPause != 0 {
		switch sym.Pick("pause", 3) {
		case 1:
			ann[helper.PausedReconcileAnn] = "true"
			sw.paused = true
		case 2:
			ann[helper.PausedReconcileAnn] = "false"
		}
	}
	if len(ann) > 0 {
		set.Annotations = ann
	}
	if opts&yDeleting != 0 && sym.Pick("deleting", 2) == 1 {
		set.DeletionTimestamp = &metav1.Time{}
		sw.delet = true
	}
	if opts&yUndefaulted == 0 {
		pol := sym.Str("policy", string(apps.OrderedReadyPodManagement), string(apps.ParallelPodManagement))
		set.Spec.PodManagementPolicy = apps.PodManagementPolicyType(pol)
	} else {
		// what manifests/crd.v1.yaml admits: any strings, optional blocks absent, any partition
		pol := sym.Str("policy", string(apps.OrderedReadyPodManagement), string(apps.ParallelPodManagement), "", "Foo")
		set.Spec.PodManagementPolicy = apps.PodManagementPolicyType(pol)
		st := sym.Str("strategy", string(apps.RollingUpdateStatefulSetStrategyType), string(apps.OnDeleteStatefulSetStrategyType), "", "Foo")
		set.Spec.UpdateStrategy.Type = apps.StatefulSetUpdateStrategyType(st)
		switch sym.Pick("rublock", 3) {
		case 0:
			set.Spec.UpdateStrategy.RollingUpdate = nil
			sym.Disc("rollingUpdate-absent")
		case 1:
			set.Spec.UpdateStrategy.RollingUpdate = &apps.RollingUpdateStatefulSetStrategy{}
			sym.Disc("partition-omitted")
		case 2:
			p := sym.Int32("partition")
			set.Spec.UpdateStrategy.RollingUpdate = &apps.RollingUpdateStatefulSetStrategy{Partition: &p}
			if sym.ConcreteBool(p < 0) {
				sym.Disc("partition-negative")
			} else {
				sym.Disc("partition-non-negative")
			}
		}
		if opts&ySelectorShapes != 0 {
			// the CRD only requires the selector field to be present: these forms also match pods without labels
			switch sym.Pick("selector", 3) {
			case 1:
				set.Spec.Selector = &metav1.LabelSelector{}
				sym.Cover("empty selector")
			case 2:
				set.Spec.Selector = &metav1.LabelSelector{MatchExpressions: []metav1.LabelSelectorRequirement{{Key: "app", Operator: metav1.LabelSelectorOpDoesNotExist}}}
				sym.Cover("DoesNotExist selector")
			}
		}
		lim := sym.Int32("historyLimit")
		sym.Assume(lim >= 0)
		set.Spec.RevisionHistoryLimit = &lim
		switch sym.Pick("status", 3) {
		case 1:
			set.Status.CurrentRevision = "no-such-revision"
		case 2:
			cc := int32(sym.IntIn("collisions", 0, 3))
			set.Status.CollisionCount = &cc
		}
		set.Status.CurrentReplicas = sym.Int32("st.current")
	}
	if opts&ySelectorExpr != 0 {
		set.Spec.Selector = &metav1.LabelSelector{MatchLabels: map[string]string{"app": "web"},
			MatchExpressions: []metav1.LabelSelectorRequirement{{Key: "tier", Operator: metav1.LabelSelectorOpNotIn, Values: []string{"canary"}}}}
	}
	sw.upd = vRevision(set, "B", 2)
	set.Status.UpdateRevision = sw.upd.Name
	if opts&yUndefaulted == 0 || set.Status.CurrentRevision == "" {
		set.Status.CurrentRevision = sw.upd.Name
	}
	own := vOwnerRef(controllerKind.Kind, vSetName, vSetUID)
	updOwner := 0
	if opts&yOrphanRevs != 0 && sym.Pick("updorphan", 2) == 1 {
		sym.Cover("own revision is an orphan")
		sw.upd.OwnerReferences = nil
		updOwner = 2
	} else {
		sw.upd.OwnerReferences = own
	}
	w.apiRevs = append(w.apiRevs, sw.upd)
	sw.revs = append(sw.revs, &vSyncRev{rev: sw.upd, owner: updOwner, labels: true})
	if opts&ySelectorShapes != 0 && sym.Pick("numericHashRevision", 2) == 1 {
		// any population of revisions: an older revision of the set whose hash label happens to be all digits
		x := vRevision(set, "A", 1)
		x.Name = vSetName + "-numeric"
		x.UID = "uid-rev-numeric"
		x.OwnerReferences = own
		x.Labels["controller.kubernetes.io/hash"] = "12345"
		w.apiRevs = append(w.apiRevs, x)
		sw.revs = append(sw.revs, &vSyncRev{rev: x, labels: true})
		sym.Cover("a revision with an all-digit hash label")
	}
	if opts&yRevDims != 0 {
		// no history is kept, so that every revision the controller counts as unused history is deleted
		zero := int32(0)
		set.Spec.RevisionHistoryLimit = &zero
		// one more revision with every owner / label / marker combination
		x := vRevision(set, "A", 1)
		x.Name = vSetName + "-extra"
		x.UID = "uid-rev-extra"
		sr := &vSyncRev{rev: x}
		sr.owner = sym.Pick("rev.owner", 3)
		switch sr.owner {
		case 0:
			x.OwnerReferences = own
		case 1:
			x.OwnerReferences = vOwnerRef("StatefulSet", "other", "uid-other")
		case 2:
			x.OwnerReferences = nil
		}
		sr.labels = sym.Pick("rev.labels", 2) == 1
		if !sr.labels {
			x.Labels = map[string]string{"app": "other"}
		}
		sr.marker = sym.Pick("rev.marker", 2) == 1
		if sr.marker {
			x.Labels[helper.UpgradeToAdvancedStatefulSetAnn] = vSetName
		}
		w.apiRevs = append(w.apiRevs, x)
		sw.revs = append(sw.revs, sr)
	}
	sw.set = set
	w.sets = []*apps.StatefulSet{set}
	api := set.DeepCopy()
	if opts&yStaleCache != 0 {
		sw.apiSet = sym.Pick("apiset", 4)
		switch sw.apiSet {
		case 1:
			api.UID = "uid-set-recreated"
		case 2:
			api.DeletionTimestamp = &metav1.Time{}
		}
	}
	if sw.apiSet != 3 {
		w.apiSets = []*apps.StatefulSet{api}
	}

	next := 0
	for i := 0; i < N; i++ {
		room := sw.n - next
		if room <= 0 {
			break
		}
		c := sym.Pick("ord", room+1)
		if c == room {
			break
		}
		ord := next + c
		next = ord + 1
		sp := &vSyncPod{ord: ord, match: true, member: true}
		pod := newStatefulSetPod(set, ord)
		pod.UID = types.UID(fmt.Sprintf("uid-snap-pod-%d", ord))
		pod.Status.Phase = v1.PodRunning
		pod.Status.Conditions = []v1.PodCondition{{Type: v1.PodReady, Status: v1.ConditionTrue}}
		setPodRevision(pod, sw.upd.Name)
		if opts&yHealthDims != 0 {
			pod.Status.Phase = v1.PodPhase(sym.Str("phase", string(v1.PodPending), string(v1.PodRunning), string(v1.PodSucceeded), string(v1.PodFailed), string(v1.PodUnknown)))
			pod.Status.Conditions[0].Status = v1.ConditionStatus(sym.Str("ready", string(v1.ConditionTrue), string(v1.ConditionFalse)))
			setPodRevision(pod, sym.Str("rev", sw.upd.Name, vSetName+"-other"))
		}
		if sym.Pick("terminating", 2) == 1 {
			pod.DeletionTimestamp = &metav1.Time{}
			sp.term = true
		}
		if opts&yOwnerDims != 0 {
			sp.owner = sym.Pick("owner", 4)
			switch sp.owner {
			case 1:
				pod.OwnerReferences = vOwnerRef(controllerKind.Kind, vSetName, "uid-set-old")
			case 2:
				pod.OwnerReferences = vOwnerRef("ReplicaSet", "rs", "uid-rs")
			case 3:
				pod.OwnerReferences = nil
			}
			nl := 2
			if opts&ySelectorExpr != 0 {
				nl = 3
			}
			switch sym.Pick("labels", nl) {
			case 1:
				pod.Labels["app"] = "other"
				sp.match = false
			case 2: // satisfies matchLabels, violates the expression
				pod.Labels["tier"] = "canary"
				sp.match = false
				sym.Cover("a pod satisfies matchLabels but not the expression")
			}
			sp.shape = sym.Pick("shape", 3)
			switch sp.shape {
			case 1:
				pod.Name = fmt.Sprintf("other-%d", ord)
				sp.member = false
			case 2:
				pod.Name = fmt.Sprintf("%s-x%d", vSetName, ord) // no trailing "-<digits>": not a member
				sp.member = false
			}
		}
		if opts&yUndefaulted != 0 {
			switch sym.Pick("podshape", 3) {
			case 1:
				pod.Name = fmt.Sprintf("%s-0%d", vSetName, ord) // "web-1-07": parses as ordinal 7
			case 2:
				pod.Labels = nil
				sp.match = false
			}
		}
		sp.pod = pod
		sw.pods = append(sw.pods, sp)
		w.pods = append(w.pods, pod)
		w.apiPods = append(w.apiPods, pod.DeepCopy())
		for _, c := range getPersistentVolumeClaims(set, pod) {
			c := c
			w.pvcs = append(w.pvcs, &c)
			w.apiPVCs = append(w.apiPVCs, c.DeepCopy())
		}
	}
	return sw
}

func (sw *vSyncWorld) trace(err error, panicked string) {
	w := sw.w
	names := map[string]string{sw.upd.Name: "rev(B)", vSetName + "-extra": "rev(extra)", vSetName + "-other": "rev(other)"}
	for _, op := range w.ops {
		switch op.verb {
		case "pod.create":
			sym.Note(op.verb, op.name, "rev", w.vVariantName(getPodRevision(op.pod), names), "failed", op.failed)
		case "set.updateStatus":
			st := op.status
			sym.Note(op.verb, "replicas", st.Replicas, "ready", st.ReadyReplicas, "current", st.CurrentReplicas, "updated", st.UpdatedReplicas, "failed", op.failed)
		case "rev.list", "rev.get":
			sym.Note(op.verb, "failed", op.failed)
		case "rev.create", "rev.update", "rev.delete", "rev.patch":
			sym.Note(op.verb, w.vVariantName(op.name, names), "failed", op.failed)
		case "pod.patch":
			sym.Note(op.verb, op.name, strings.Contains(op.patch, `"$patch":"delete"`), "failed", op.failed)
		default:
			sym.Note(op.verb, op.name, "failed", op.failed)
		}
	}
	sym.Note("result", err == nil, "panic", panicked != "")
}

// VH_Sync: a = [N, R, K, opts, monitors].
func VH_Sync(a []int) {
	N, R, K, opts, mon := a[0], a[1], a[2], a[3], a[4]
	sw := vBuildSync(N, R, K, opts)
	if opts&yStatusConflict != 0 {
		sw.w.faultBudget, sw.w.faultKinds, sw.w.faultOnly = 1, 2, "set.updateStatus"
	}
	if opts&yCacheLosesSet != 0 && sym.Pick("cacheLosesSet", 2) == 1 {
		sw.w.setLeavesCacheAfter = 1 // only the reconcile's own first lookup still finds it
		sym.Cover("the set leaves the cache during the reconcile")
	}
	ssc := vNewController(sw.w)
	if mon&nC10 != 0 {
		// objects handed out by the informer caches must not be modified
		sym.Freeze(sw.w.pods)
		sym.Freeze(sw.w.sets)
		sym.Freeze(sw.w.pvcs)
	}
	var err error
	panicked := ""
	func() {
		defer func() {
			if r := recover(); r != nil {
				panicked = fmt.Sprint(r)
			}
		}()
		err = ssc.sync(vNS + "/" + vSetName)
	}()
	sw.trace(err, panicked)
	if mon&nC15 != 0 {
		sym.Assert(panicked == "", "C15", "reconcile never panics")
		sym.Cover("reconcile returned")
	} else if panicked != "" {
		panic(panicked)
	}
	if mon&nC10 != 0 {
		sw.monC10(err)
	}
	if mon&nC11 != 0 {
		sw.monC11(err)
	}
}

func (sw *vSyncWorld) podNamed(name string) *vSyncPod {
	for _, p := range sw.pods {
		if p.pod.Name == name {
			return p
		}
	}
	return nil
}

func (sw *vSyncWorld) revNamed(name string) *vSyncRev {
	for _, r := range sw.revs {
		if r.rev.Name == name {
			return r
		}
	}
	return nil
}

// freshOK: an uncached read earlier in the log confirmed the set (same UID, not deleting).
func (sw *vSyncWorld) freshOK(before int) bool {
	for j := 0; j < before; j++ {
		if sw.w.ops[j].verb == "set.get" && !sw.w.ops[j].failed {
			return sw.apiSet == 0
		}
	}
	return false
}

func (sw *vSyncWorld) monC10(err error) {
	w := sw.w
	owned := 0
	for _, p := range sw.pods {
		// expected membership: name <set>-<ord>, labels match, and owned by this UID or adoptable
		adoptable := p.owner == 3 && !p.term && !sw.delet && sw.apiSet == 0
		p.claimed = p.member && p.match && (p.owner == 0 || adoptable)
		if p.claimed {
			owned++
		}
	}
	for i, op := range w.ops {
		switch op.verb {
		case "pod.patch":
			p := sw.podNamed(op.name)
			if p == nil {
				sym.Assert(false, "C10", "patched pod exists")
				continue
			}
			if strings.Contains(op.patch, `"$patch":"delete"`) {
				sym.Cover("release patch")
				sym.Assert(p.owner == 0, "C10", "only pods controlled by this set are released")
				sym.Assert(!(p.member && p.match), "C10", "only pods that stopped matching are released")
				sym.Assert(strings.Contains(op.patch, `"uid":"`+string(vSetUID)+`"`), "C10", "release removes exactly this set's owner reference")
				sym.Assert(!sw.delet, "C10", "a set being deleted releases nothing")
			} else {
				sym.Cover("adopt patch")
				sym.Assert(p.owner == 3, "C10", "only unowned pods are adopted")
				sym.Assert(!p.term, "C10", "terminating pods are not adopted")
				sym.Assert(p.member && p.match, "C10", "only matching, rightly named pods are adopted")
				sym.Assert(sw.freshOK(i), "C10", "adoption only after an uncached read confirmed the set")
				sym.Assert(vUIDIn(op.patch) == vSetUID, "C10", "adoption installs this set's UID")
			}
		case "pod.delete", "pod.update":
			p := sw.podNamed(op.name)
			if p == nil {
				continue
			}
			sym.Assert(p.owner == 0 || p.owner == 3, "C10", "pods controlled by another owner are never written")
			sym.Assert(p.claimed, "C10", "pods that are not members are never deleted or updated")
		case "rev.patch", "rev.update", "rev.delete":
			r := sw.revNamed(op.name)
			if r == nil {
				continue
			}
			sym.Cover("write on a listed revision")
			if r.owner == 1 {
				sym.Disc("revision-owner=foreign")
			}
			sym.Assert(r.owner != 1, "C10", "revisions controlled by another owner are never written")
			if op.verb == "rev.patch" {
				sym.Assert(r.owner == 2, "C10", "only orphan revisions are adopted")
				sym.Assert(sw.freshOK(i), "C10", "revision adoption only after an uncached read confirmed the set")
			}
			sym.Disc("")
		case "set.updateStatus":
			if !op.failed {
				sym.Cover("status written after claiming")
				sym.Assert(op.status.Replicas <= int32(owned)+int32(sw.creates()), "C10", "pods that are not members are not counted")
			}
		}
	}
	// pods that are not claimed are never the target of a create collision either
	for _, op := range w.ops {
		if op.verb == "pod.create" {
			if p := sw.podNamed(op.name); p != nil && !p.claimed {
				sym.Cover("create collides with a pod the set does not own")
			}
		}
	}
}

func (sw *vSyncWorld) creates() int {
	n := 0
	for _, op := range sw.w.ops {
		if op.verb == "pod.create" {
			n++
		}
	}
	return n
}

func (sw *vSyncWorld) monC11(err error) {
	w := sw.w
	if sw.paused {
		sym.Cover("paused set reconciled")
		writes := 0
		for _, op := range w.ops {
			if op.write {
				writes++
			}
		}
		sym.Assert(writes == 0, "C11", "a paused set is not written at all")
		sym.Assert(err == nil, "C11", "a paused reconcile succeeds")
		return
	}
	if sw.delet {
		sym.Cover("deleting set reconciled")
		podWrites, revAdopts := 0, 0
		for _, op := range w.ops {
			switch op.verb {
			case "pod.create", "pod.delete", "pod.update", "pod.patch", "pvc.create":
				podWrites++
			case "rev.patch":
				revAdopts++
			}
		}
		sym.Assert(podWrites == 0, "C11", "no pod or claim write for a set being deleted")
		if revAdopts > 0 {
			sym.Disc("revision-adopted-while-deleting")
		}
		sym.Assert(revAdopts == 0, "C11", "a set being deleted adopts no revision")
		sym.Disc("")
	}
	if !sw.delet && sw.apiSet == 2 {
		// the deletion is known to the API server only (the cache lags): nothing may be adopted
		sym.Cover("set deleted on the server, cache stale")
		adopts := 0
		for _, op := range w.ops {
			if op.verb == "rev.patch" || (op.verb == "pod.patch" && !strings.Contains(op.patch, `"$patch":"delete"`)) {
				adopts++
			}
		}
		if adopts > 0 {
			sym.Disc("adopted-with-stale-cache")
		}
		sym.Assert(adopts == 0, "C11", "nothing is adopted once the API server shows the set being deleted")
		sym.Disc("")
	}
}
