//go:build verif

package statefulset

// Multi-round harnesses: C02 (convergence and quiescence), C09 (a failure or
// crash at any API call), C18 (first reconciles after a migration).

import (
	kubeapps "k8s.io/api/apps/v1"
	v1 "k8s.io/api/core/v1"
	metav1 "k8s.io/apimachinery/pkg/apis/meta/v1"

	apps "github.com/pingcap/advanced-statefulset/client/apis/apps/v1"
	"github.com/pingcap/advanced-statefulset/client/zz_verif/sym"
)

func init() {
	vHarnesses["VH_Converge"] = VH_Converge
}

// refresh lets the informer caches catch up with the API server.
func (w *vWorld) refresh() {
	w.pods = nil
	for _, p := range w.apiPods {
		w.pods = append(w.pods, p.DeepCopy())
	}
	w.pvcs = nil
	for _, c := range w.apiPVCs {
		w.pvcs = append(w.pvcs, c.DeepCopy())
	}
	w.sets = nil
	for _, s := range w.apiSets {
		w.sets = append(w.sets, s.DeepCopy())
	}
}

// kubelet is one fair step of the environment: terminating pods finish
// terminating, every other pod that is not Running and Ready becomes so;
// Failed and Succeeded pods stay as they are. It reports whether anything changed.
func (w *vWorld) kubelet() bool {
	changed := false
	var kept []*v1.Pod
	for _, p := range w.apiPods {
		if p.DeletionTimestamp != nil {
			changed = true
			continue
		}
		c := p.DeepCopy()
		if sym.ConcreteBool(sym.Or(c.Status.Phase == v1.PodFailed, c.Status.Phase == v1.PodSucceeded)) {
			kept = append(kept, c)
			continue
		}
		ready := false
		if len(c.Status.Conditions) > 0 {
			ready = sym.ConcreteBool(c.Status.Conditions[0].Status == v1.ConditionTrue)
		}
		if !sym.ConcreteBool(c.Status.Phase == v1.PodRunning) || !ready {
			c.Status.Phase = v1.PodRunning
			c.Status.Conditions = []v1.PodCondition{{Type: v1.PodReady, Status: v1.ConditionTrue}}
			changed = true
		}
		kept = append(kept, c)
	}
	w.apiPods = kept
	return changed
}

// clone copies the objects of the world (caches and server state); logs and fault settings start empty.
func (w *vWorld) clone() *vWorld {
	c := &vWorld{uidSeq: w.uidSeq}
	for _, p := range w.pods {
		c.pods = append(c.pods, p.DeepCopy())
	}
	for _, p := range w.pvcs {
		c.pvcs = append(c.pvcs, p.DeepCopy())
	}
	for _, p := range w.sets {
		c.sets = append(c.sets, p.DeepCopy())
	}
	for _, p := range w.apiPods {
		c.apiPods = append(c.apiPods, p.DeepCopy())
	}
	for _, p := range w.apiPVCs {
		c.apiPVCs = append(c.apiPVCs, p.DeepCopy())
	}
	for _, p := range w.apiRevs {
		c.apiRevs = append(c.apiRevs, p.DeepCopy())
	}
	for _, p := range w.apiSets {
		c.apiSets = append(c.apiSets, p.DeepCopy())
	}
	return c
}

// assertSameFinalState (C09): the run that suffered failures ends where the run without failures ends:
// the same pods, each at the same revision, the same claims, and the same status.
func (s *vSnap) assertSameFinalState(a, b *vWorld) {
	revOf := func(w *vWorld, name string) string {
		for _, p := range w.apiPods {
			if p.Name == name {
				return "rev:" + getPodRevision(p)
			}
		}
		return "absent"
	}
	// the creation revision under RollingUpdate without a rollingUpdate block follows the legacy
	// status.currentReplicas rule, which the statement's partition does not define (outside the claim)
	legacy := sym.ConcreteBool(sym.And(s.rolling, !s.partOK))
	for x := 0; x < s.n; x++ {
		name := getPodName(s.set, x)
		ra, rb := revOf(a, name), revOf(b, name)
		sym.Assert((ra == "absent") == (rb == "absent"), "C09", "same pods as the run without failures")
		if !legacy {
			sym.Assert(ra == rb, "C09", "every pod ends at the same revision as in the run without failures")
		}
	}
	sym.Assert(len(a.apiPVCs) == len(b.apiPVCs), "C09", "same claims as the run without failures")
	sa, sb := a.apiSets[0].Status, b.apiSets[0].Status
	sym.Assert(sa.Replicas == sb.Replicas && sa.ReadyReplicas == sb.ReadyReplicas, "C09", "same status counters as the run without failures")
	if !legacy {
		sym.Assert(sa.CurrentRevision == sb.CurrentRevision && sa.UpdateRevision == sb.UpdateRevision, "C09", "same current and update revision as the run without failures")
		sym.Assert(sa.CurrentReplicas == sb.CurrentReplicas && sa.UpdatedReplicas == sb.UpdatedReplicas, "C09", "same revision counters as the run without failures")
	}
}

func (w *vWorld) writesSince(mark int) int {
	n := 0
	for _, op := range w.ops[mark:] {
		if op.write {
			n++
		}
	}
	return n
}

// converged checks the final state of the statement.
func (s *vSnap) assertConverged(prop string) {
	w := s.w
	present := make([]bool, s.n)
	for _, p := range w.apiPods {
		ord := vOrd(p.Name)
		if ord < 0 || ord >= s.n {
			sym.Assert(false, prop, "every pod of the final state has an ordinal of the universe")
			continue
		}
		present[ord] = true
		sym.Assert(s.desired[ord], prop, "no pod outside the desired set remains")
		sym.Assert(p.DeletionTimestamp == nil, prop, "no pod is left terminating")
		ready := len(p.Status.Conditions) > 0 && p.Status.Conditions[0].Status == v1.ConditionTrue
		sym.Assert(sym.And(p.Status.Phase == v1.PodRunning, ready), prop, "every pod is Running and Ready")
		rev := getPodRevision(p)
		if s.rolling {
			// at or above the partition (0 when the block is absent) pods carry the update revision
			sym.Assert(sym.Implies(sym.And(s.rolling, int32(ord) >= s.part), rev == s.upd.Name), prop, "pods at or above the partition carry the update revision")
		}
		ref := metav1.GetControllerOf(p)
		sym.Assert(ref != nil && ref.UID == vSetUID, prop, "every pod is controlled by the set")
	}
	for x := 0; x < s.n; x++ {
		sym.Assert(sym.Implies(s.desired[x], present[x]), prop, "every desired ordinal has its pod")
	}
	st := w.apiSets[0].Status
	sym.Assert(st.Replicas == s.r, prop, "status.replicas equals spec.replicas")
	sym.Assert(st.ReadyReplicas == s.r, prop, "status.readyReplicas equals spec.replicas")
	sym.Assert(st.ObservedGeneration == s.set.Generation, prop, "status.observedGeneration is current")
}

// VH_Converge: a = [N, R, K, opts]: from an arbitrary snapshot, reconcile and
// let the environment make fair progress until nothing changes any more.
func VH_Converge(a []int) {
	N, R, K, opts := a[0], a[1], a[2], a[3]
	s := vBuildSnap(N, R, K, opts)
	w := s.w
	// fairness premise: a Failed/Succeeded pod outside the desired set can never
	// become Ready and the controller is not obliged to replace it
	for _, p := range s.pods {
		sym.Assume(sym.Implies(p.finished(), s.desired[p.ord]))
	}
	ssc := vNewController(w)
	key := vNS + "/" + vSetName
	// a pod needs at most three reconciles per reason it is wrong, OrderedReady
	// handles one ordinal per reconcile
	T := 3*(N+R+K) + 4
	fixed := false
	rounds := 0
	for t := 0; t < T; t++ {
		w.refresh()
		mark := len(w.ops)
		// a reconcile may legitimately fail on the way (re-creating a pod whose
		// predecessor is still terminating gets AlreadyExists); it is retried
		ssc.sync(key)
		writes := w.writesSince(mark)
		moved := w.kubelet()
		rounds++
		if writes == 0 && !moved {
			fixed = true
			break
		}
	}
	sym.Note("rounds", rounds, "fixed", fixed)
	for _, op := range w.ops {
		if op.write {
			switch op.verb {
			case "pod.create", "pod.delete", "pod.update", "pod.patch", "pvc.create":
				sym.Note(op.verb, op.name)
			default:
				sym.Note(op.verb)
			}
		}
	}
	sym.Assert(fixed, "C02", "a fixed point is reached within the derived number of rounds")
	s.assertConverged("C02")
	// from then on a reconcile issues no write at all
	for k := 0; k < 2; k++ {
		w.refresh()
		mark := len(w.ops)
		err := ssc.sync(key)
		sym.Assert(err == nil, "C02", "a quiescent reconcile succeeds")
		sym.Assert(w.writesSince(mark) == 0, "C02", "once converged a reconcile issues no write")
	}
	sym.Cover("converged and quiet")
}

var _ = apps.ParallelPodManagement

func init() {
	vHarnesses["VH_Fault"] = VH_Fault
}

// VH_Fault (C09): a = [N, R, K, opts, kinds, crash]. One reconcile during which
// one API call fails (kinds error kinds) or, with crash=1, the process dies at
// that call; then the loop of C02 without failures.
func VH_Fault(a []int) {
	N, R, K, opts, kinds, crash := a[0], a[1], a[2], a[3], a[4], a[5]
	s := vBuildSnap(N, R, K, opts)
	w := s.w
	for _, p := range s.pods {
		sym.Assume(sym.Implies(p.finished(), s.desired[p.ord]))
	}
	ssc := vNewController(w)
	q := &vQueue{}
	ssc.queue = q
	key := vNS + "/" + vSetName
	w.faultBudget, w.faultKinds, w.crashAt = 1, kinds, crash == 1
	if len(a) > 6 {
		w.faultBudget = a[6] // pairs of failures in one reconcile
	}
	var twin *vWorld
	if len(a) > 7 && a[7] == 1 {
		twin = w.clone() // the same start state, for a run without failures
	}
	crashed := false
	var err error
	func() {
		defer func() {
			if r := recover(); r != nil {
				if _, ok := r.(vCrash); ok {
					crashed = true
					return
				}
				panic(r)
			}
		}()
		err = ssc.sync(key)
	}()
	w.faultBudget = 0
	for _, op := range w.ops {
		if op.write || op.failed {
			switch op.verb {
			case "pod.create", "pod.delete", "pod.update", "pod.patch", "pvc.create":
				sym.Note(op.verb, op.name, "failed", op.failed)
			default:
				sym.Note(op.verb, "failed", op.failed)
			}
		}
	}
	sym.Note("result", err == nil, "crashed", crashed)

	// (1) a failed call that was neither retried successfully nor applied behind
	// the error is reported
	unrecovered := false
	for i, op := range w.ops {
		if !op.failed || op.applied {
			continue
		}

		retried := false
		for _, later := range w.ops[i+1:] {
			if later.verb == op.verb && later.name == op.name && !later.failed {
				retried = true
			}
		}
		if !retried {
			unrecovered = true
		}
	}
	if len(w.faulted) > 0 {
		sym.Cover("a call failed")
	}
	if len(w.faulted) > 1 {
		sym.Cover("two calls failed in one reconcile")
	}
	if unrecovered && !crashed {
		if len(w.faulted) > 0 { // else the call failed by itself (a re-created pod whose predecessor is still terminating)
			sym.Disc(w.faulted[0])
		}
		sym.Assert(err != nil, "C09", "a failed API call makes the reconcile report failure")
		sym.Disc("")
	}
	// (2) the partial work violates none of the safety rules
	if len(w.faulted) > 0 && w.faulted[0] == "pod.patch:not-found" {
		// the pod disappeared under the reconcile (that is what NotFound on its patch means): the
		// snapshot the safety monitors speak about is no longer the state of the world
		sym.Cover("a pod vanished while it was being adopted or released")
	} else {
		s.monC03()
		s.monC04()
	}
	// (3) once calls stop failing the system converges to the same final state
	T := 3*(N+R+K) + 6
	fixed := false
	w.kubelet()
	for t := 0; t < T; t++ {
		w.refresh()
		mark := len(w.ops)
		ssc.sync(key)
		writes := w.writesSince(mark)
		moved := w.kubelet()
		if writes == 0 && !moved {
			fixed = true
			break
		}
	}
	sym.Assert(fixed, "C09", "after the failure a fixed point is reached")
	s.assertConverged("C09")
	if twin != nil && fixed {
		// the run without failures, from the same start state
		tsc := vNewController(twin)
		tfixed := false
		for t := 0; t < T; t++ {
			twin.refresh()
			mark := len(twin.ops)
			tsc.sync(key)
			writes := twin.writesSince(mark)
			moved := twin.kubelet()
			if writes == 0 && !moved {
				tfixed = true
				break
			}
		}
		if tfixed {
			s.assertSameFinalState(w, twin)
			sym.Cover("final state compared with the run without failures")
		}
	}
	if crashed {
		sym.Cover("recovered from a crash")
	} else {
		sym.Cover("recovered from a failure")
	}
}

func init() {
	vHarnesses["VH_Migrate"] = VH_Migrate
}

// VH_Migrate (C18, decided part): the first reconciles of the Advanced
// controller on the world the upgrade helper leaves behind. a = [N pods].
func VH_Migrate(a []int) {
	N := a[0]
	w := &vWorld{}
	set := vNewSet(int32(N))
	set.Spec.PodManagementPolicy = apps.PodManagementPolicyType(sym.Str("policy", string(apps.OrderedReadyPodManagement), string(apps.ParallelPodManagement)))
	part := int32(sym.IntIn("partition", 0, N))
	set.Spec.UpdateStrategy.RollingUpdate.Partition = &part
	rollout := sym.Pick("rollout", 2) == 1
	// the built-in controller's revisions, relabelled by the upgrade helper:
	// marker only, no selector labels, orphaned by the garbage collector
	mk := func(variant, name string, n int64) *kubeapps.ControllerRevision {
		r := vRevision(set, variant, n)
		r.Name = name
		hash := r.Labels["controller.kubernetes.io/hash"]
		r.Labels = map[string]string{"apps.pingcap.com/upgrade-to-asts": vSetName, "controller.kubernetes.io/hash": hash}
		r.OwnerReferences = nil
		return r
	}
	rB := mk("B", vSetName+"-builtinB", 2)
	w.apiRevs = append(w.apiRevs, rB)
	cur := rB
	if rollout {
		rA := mk("A", vSetName+"-builtinA", 1)
		w.apiRevs = append(w.apiRevs, rA)
		cur = rA
	}
	set.Status.CurrentRevision = cur.Name
	set.Status.UpdateRevision = rB.Name
	set.Status.Replicas = int32(N)
	// the built-in set may have seen a hash collision after these revisions were recorded:
	// their hash labels were computed under an older collision count than the status carries
	switch sym.Pick("collisionCount", 3) {
	case 1:
		cc := int32(0)
		set.Status.CollisionCount = &cc
	case 2:
		cc := int32(1)
		set.Status.CollisionCount = &cc
		sym.Cover("the built-in set saw a hash collision")
	}
	// the garbage collector orphans the dependents of the deleted built-in set one
	// object at a time: a revision may still carry the built-in owner reference
	for _, r := range w.apiRevs {
		if sym.Pick("rev.gc", 2) == 1 {
			r.OwnerReferences = vOwnerRef("StatefulSet", vSetName, "uid-builtin")
			r.OwnerReferences[0].APIVersion = "apps/v1"
			sym.Cover("a revision is orphaned later than the others")
		}
	}
	builtinOwned := sym.Pick("gc", 2) == 1 // the garbage collector has not orphaned the pods yet
	for i := 0; i < N; i++ {
		pod := newStatefulSetPod(set, i)
		pod.UID = "uid-snap-pod"
		pod.Status.Phase = v1.PodRunning
		pod.Status.Conditions = []v1.PodCondition{{Type: v1.PodReady, Status: v1.ConditionTrue}}
		rev := sym.Str("rev", cur.Name, rB.Name)
		// a rollout halted by the partition: pods at or above it are already updated
		sym.Assume(sym.Implies(int32(i) >= part, rev == rB.Name))
		setPodRevision(pod, rev)
		if builtinOwned {
			pod.OwnerReferences = vOwnerRef("StatefulSet", vSetName, "uid-builtin")
			pod.OwnerReferences[0].APIVersion = "apps/v1"
		} else {
			pod.OwnerReferences = nil
		}
		w.apiPods = append(w.apiPods, pod)
		for _, c := range getPersistentVolumeClaims(set, pod) {
			c := c
			w.apiPVCs = append(w.apiPVCs, &c)
		}
	}
	w.apiSets = []*apps.StatefulSet{set}
	if len(a) > 1 && a[1] == 1 {
		// one write to a revision (label sync or adoption) may fail once
		w.faultBudget, w.faultKinds = 1, 2
		w.faultOnly = []string{"rev.update", "rev.patch"}[sym.Pick("faultAt", 2)]
	}
	ssc := vNewController(w)
	key := vNS + "/" + vSetName
	for round := 0; round < 4; round++ {
		w.refresh()
		err := ssc.sync(key)
		sym.Note("round", round, "ok", err == nil)
		for i, r := range w.apiRevs {
			if len(r.OwnerReferences) == 1 && r.OwnerReferences[0].UID == "uid-builtin" {
				c := r.DeepCopy()
				c.OwnerReferences = nil
				w.apiRevs[i] = c
				break // one object per garbage-collector pass
			}
		}
		// the garbage collector orphans the dependents of the deleted built-in set
		for i, p := range w.apiPods {
			if len(p.OwnerReferences) == 1 && p.OwnerReferences[0].UID == "uid-builtin" {
				c := p.DeepCopy()
				c.OwnerReferences = nil
				w.apiPods[i] = c
			}
		}
		w.kubelet()
	}
	for _, op := range w.ops {
		if !op.write {
			continue
		}
		switch op.verb {
		case "rev.update", "rev.patch", "rev.create", "rev.delete":
			sym.Note(op.verb, op.name, "failed", op.failed)
		case "set.updateStatus":
			sym.Note(op.verb, "upd", op.status.UpdateRevision, "cur", op.status.CurrentRevision)
		default:
			sym.Note(op.verb, op.name, "failed", op.failed)
		}
	}
	adopted := map[string]bool{}
	synced := map[string]bool{}
	for _, op := range w.ops {
		switch op.verb {
		case "rev.create":
			sym.Assert(false, "C18", "no new revision is created after a migration")
		case "pod.delete":
			sym.Assert(false, "C18", "no pod is deleted after a migration")
		case "rev.update":
			if !op.failed {
				synced[op.name] = true
			}
		case "rev.patch":
			if !op.failed {
				sym.Assert(synced[op.name], "C18", "revisions are label-synced before they are adopted")
				adopted[op.name] = true
			}
		case "set.updateStatus":
			sym.Assert(op.status.UpdateRevision == rB.Name, "C18", "the update revision resolves to the adopted built-in revision")
		}
	}
	for _, r := range w.apiRevs {
		sym.Assert(adopted[r.Name], "C18", "every marked revision is adopted")
		ref := metav1.GetControllerOf(r)
		sym.Assert(ref != nil && ref.UID == vSetUID, "C18", "adopted revisions are controlled by the Advanced set")
		sym.Assert(r.Labels["app"] == "web", "C18", "adopted revisions carry the selector labels again")
	}
	sym.Assert(len(w.apiRevs) == len(adopted), "C18", "the revision population is unchanged")
	for _, p := range w.apiPods {
		ref := metav1.GetControllerOf(p)
		sym.Assert(ref != nil && ref.UID == vSetUID, "C18", "every pod ends up adopted by the Advanced set")
		sym.Assert(p.DeletionTimestamp == nil, "C18", "no pod is terminating")
	}
	sym.Assert(len(w.apiPods) == N, "C18", "the pod population is unchanged")
	sym.Cover("migration reconciled")
}
