//go:build verif

package statefulset

// W-pod (C06): identity and storage of the pods the controller builds, and the
// claims-first discipline of the real pod control.

import (
	"fmt"

	v1 "k8s.io/api/core/v1"
	apierrors "k8s.io/apimachinery/pkg/api/errors"
	metav1 "k8s.io/apimachinery/pkg/apis/meta/v1"

	apps "github.com/pingcap/advanced-statefulset/client/apis/apps/v1"
	"github.com/pingcap/advanced-statefulset/client/zz_verif/sym"
)

func init() {
	vHarnesses["VH_Pod"] = VH_Pod
}

var vClaimNames = []string{"data", "logs", "www"}

// VH_Pod: a = [T claim templates, F faults].
func VH_Pod(a []int) {
	T, F := a[0], a[1]
	w := &vWorld{faultBudget: F, faultKinds: 4, listerFaults: true}
	set := vNewSet(3)
	nt := sym.Pick("templates", T+1)
	set.Spec.VolumeClaimTemplates = nil
	for i := 0; i < nt; i++ {
		c := v1.PersistentVolumeClaim{ObjectMeta: metav1.ObjectMeta{Name: vClaimNames[i]}}
		if sym.Pick("claim.labels", 2) == 1 {
			c.Labels = map[string]string{"tier": "db"}
		}
		set.Spec.VolumeClaimTemplates = append(set.Spec.VolumeClaimTemplates, c)
	}
	// template volumes: one unrelated, and possibly one clashing with a claim name
	set.Spec.Template.Spec.Volumes = []v1.Volume{{Name: "scratch"}}
	if nt > 0 && sym.Pick("clash", 2) == 1 {
		set.Spec.Template.Spec.Volumes = append(set.Spec.Template.Spec.Volumes, v1.Volume{Name: vClaimNames[0], VolumeSource: v1.VolumeSource{EmptyDir: &v1.EmptyDirVolumeSource{}}})
		sym.Cover("template volume clashes with a claim template")
	}
	// the set name may be a DNS subdomain with dots (names are otherwise fixed constants)
	sn := vSetName
	if len(a) > 2 && a[2] == 1 && sym.Pick("setname", 2) == 1 {
		sn = "db.prod"
		set.Name = sn
		sym.Cover("set name with a dot")
	}
	// a template may carry identity fields of its own; they must not survive in the pods
	if len(a) > 2 && a[2] == 1 && sym.Pick("template.identity", 2) == 1 {
		set.Spec.Template.Spec.Hostname = "zk"
		set.Spec.Template.Spec.Subdomain = "legacy-svc"
		set.Spec.Template.Name = "from-template"
		set.Spec.Template.Namespace = "elsewhere"
		sym.Cover("template carries hostname, subdomain, name and namespace")
	}
	ord := sym.Pick("ordinal", 5)
	cur := vRevision(set, "A", 1)
	upd := vRevision(set, "B", 2)
	part := int32(sym.IntIn("partition", 0, 5))
	set.Spec.UpdateStrategy.RollingUpdate.Partition = &part
	currentSet, _ := ApplyRevision(set, cur)
	updateSet, _ := ApplyRevision(set, upd)
	pod := newVersionedStatefulSetPod(currentSet, updateSet, cur.Name, upd.Name, ord)

	// ---- identity
	name := fmt.Sprintf("%s-%d", sn, ord)
	sym.Assert(pod.Name == name, "C06", "pod name is <set>-<ordinal>")
	sym.Assert(pod.Namespace == vNS, "C06", "pod lives in the set's namespace")
	sym.Assert(pod.Spec.Hostname == name, "C06", "hostname is the pod name")
	sym.Assert(pod.Spec.Subdomain == "svc", "C06", "subdomain is the governing service")
	sym.Assert(pod.Labels[apps.StatefulSetPodNameLabel] == name, "C06", "pod-name label")
	wantRev := sym.IteStr(int32(ord) < part, cur.Name, upd.Name)
	sym.Assert(getPodRevision(pod) == wantRev, "C06", "revision label of the revision it was built from")
	wantVariant := sym.IteStr(int32(ord) < part, "A", "B")
	sym.Assert(pod.Annotations[vVariantK] == wantVariant, "C06", "template of the revision it was built from")
	ref := metav1.GetControllerOf(pod)
	sym.Assert(ref != nil && ref.UID == vSetUID && ref.Kind == controllerKind.Kind && ref.Name == sn, "C06", "controlling owner reference to the set by UID")
	for i := 0; i < nt; i++ {
		claim := fmt.Sprintf("%s-%s-%d", vClaimNames[i], sn, ord)
		found := 0
		for _, v := range pod.Spec.Volumes {
			if v.Name == vClaimNames[i] {
				found++
				sym.Assert(v.PersistentVolumeClaim != nil && v.PersistentVolumeClaim.ClaimName == claim, "C06", "volume bound to claim <template>-<set>-<ordinal>")
			}
		}
		sym.Assert(found == 1, "C06", "exactly one volume per claim template")
	}
	keptScratch := false
	for _, v := range pod.Spec.Volumes {
		if v.Name == "scratch" {
			keptScratch = true
		}
	}
	sym.Assert(keptScratch, "C06", "unrelated template volumes are kept")

	// ---- claims first
	// which claims does the informer cache already hold, which only the API server?
	inLister := make([]bool, nt)
	inAPI := make([]bool, nt)
	for i := 0; i < nt; i++ {
		c := v1.PersistentVolumeClaim{ObjectMeta: metav1.ObjectMeta{Name: fmt.Sprintf("%s-%s-%d", vClaimNames[i], sn, ord), Namespace: vNS}}
		switch sym.Pick("claim.state", 3) {
		case 1:
			w.apiPVCs = append(w.apiPVCs, c.DeepCopy())
			inAPI[i] = true
		case 2:
			w.apiPVCs = append(w.apiPVCs, c.DeepCopy())
			w.pvcs = append(w.pvcs, c.DeepCopy())
			inAPI[i], inLister[i] = true, true
		}
	}
	kube := &vKube{w: w}
	spc := NewRealStatefulPodControl(kube, w.setLister(), &vPodLister{w: w}, &vPVCLister{w: w}, vRecorder{})
	err := spc.CreateStatefulPod(set, pod)
	// claims are visited in map order, which Go leaves unspecified: the trace
	// lists the claim operations per claim, in template order
	for i := 0; i < nt; i++ {
		claim := fmt.Sprintf("%s-%s-%d", vClaimNames[i], sn, ord)
		for _, op := range w.ops {
			if op.name == claim {
				sym.Note(op.verb, op.name, "failed", op.failed)
			}
		}
	}
	for _, op := range w.ops {
		if op.verb == "pod.create" {
			sym.Note(op.verb, op.name, "failed", op.failed)
		}
	}
	sym.Note("result", err == nil)

	podCreateAt := -1
	for i, op := range w.ops {
		if op.verb == "pod.create" {
			podCreateAt = i
		}
	}
	claimTrouble := false
	for i := 0; i < nt; i++ {
		claim := fmt.Sprintf("%s-%s-%d", vClaimNames[i], sn, ord)
		ready := inLister[i]
		for j, op := range w.ops {
			if op.verb == "pvc.get" && op.name == claim && op.failed {
				claimTrouble = true
			}
			if op.verb == "pvc.create" && op.name == claim {
				if op.failed {
					claimTrouble = true
				} else if podCreateAt < 0 || j < podCreateAt {
					ready = true
				}
			}
		}
		if podCreateAt >= 0 {
			sym.Assert(ready, "C06", "every claim exists before the pod create is issued")
		}
		// created claims carry the selector's match labels and the right namespace
		for _, c := range w.apiPVCs {
			if c.Name == claim && !inAPI[i] {
				sym.Assert(c.Labels["app"] == "web" && c.Namespace == vNS, "C06", "created claims carry the selector's match labels")
			}
		}
	}
	if claimTrouble {
		sym.Cover("claim lookup or creation failed")
		sym.Assert(podCreateAt < 0, "C06", "a claim that cannot be created prevents the pod create")
		sym.Assert(err != nil, "C06", "claim trouble is reported")
	} else {
		sym.Assert(podCreateAt >= 0, "C06", "with all claims in place the pod is created")
		sym.Cover("pod created after its claims")
	}
	for _, op := range w.ops {
		if op.verb == "pod.create" && op.failed {
			sym.Assert(err != nil, "C06", "a failed pod create is reported")
		}
	}
	if err != nil || F > 0 {
		return
	}
	// ---- scale in, then scale out again: the same claims come back
	before := len(w.apiPVCs)
	w.pvcs = nil
	for _, c := range w.apiPVCs {
		w.pvcs = append(w.pvcs, c)
	}
	w.apiPods = nil
	mark := len(w.ops)
	pod2 := newVersionedStatefulSetPod(currentSet, updateSet, cur.Name, upd.Name, ord)
	err2 := spc.CreateStatefulPod(set, pod2)
	sym.Assert(err2 == nil, "C06", "re-creating a scaled-in ordinal succeeds")
	for _, op := range w.ops[mark:] {
		sym.Assert(op.verb != "pvc.create", "C06", "a re-created ordinal re-uses its claims")
	}
	sym.Assert(len(w.apiPVCs) == before, "C06", "claims survive scale-in")
	for _, a := range pod.Spec.Volumes {
		if a.PersistentVolumeClaim == nil {
			continue
		}
		same := false
		for _, b := range pod2.Spec.Volumes {
			if b.Name == a.Name && b.PersistentVolumeClaim != nil && a.PersistentVolumeClaim.ClaimName == b.PersistentVolumeClaim.ClaimName {
				same = true
			}
		}
		sym.Assert(same, "C06", "a re-created ordinal references the same claims")
	}
	sym.Cover("ordinal re-created")
}

var _ = apierrors.IsNotFound
